"""C06 - message framing is independent of how TCP delivers the bytes."""

from __future__ import annotations

import json
import random

from harness import framecheck, sessioncheck
from harness.common import Check, seed

PEER_CLAUSES = ('C06', 'C10-error-raised-for-acceptable-input', 'C10-notification-without-cause', 'C10-wrong-notification-code-for-the-error', 'C10-session-ended-on-error-without-notification')


def fam_framing(rnd: random.Random, n: int) -> list:
    """established session; messages delivered in pieces around the 100 ms read poll, coalesced with their successors"""
    out = []
    for i in range(n):
        steps = sessioncheck.reach('ESTABLISHED')
        for _ in range(rnd.randint(1, 4)):
            cls = rnd.choice(['KA', 'UPD', 'UPD-eor', 'REFRESH', 'UPD', 'UPD-tolerated'])
            s = {'do': 'send', 'cls': cls}
            if rnd.random() < 0.8:
                s['split'] = sorted(set(rnd.sample([1, 15, 16, 17, 18, 19, 20, 22], rnd.randint(1, 2))))
                s['gap'] = rnd.choice([0, 30, 99, 101, 250, 480])
            steps.append(s)
            if rnd.random() < 0.4:
                steps.append({'do': 'sleep', 'ms': rnd.choice([1, 60, 130])})
        if rnd.random() < 0.5:
            s = {'do': 'send', 'cls': rnd.choice(['HDR-marker', 'HDR-length', 'HDR-type'])}
            if rnd.random() < 0.7:
                s['split'] = [rnd.choice([1, 16, 17, 18])]
                s['gap'] = rnd.choice([0, 101, 250])
            steps.append(s)
            steps.append({'do': 'send', 'cls': 'KA'})
        steps.append({'do': 'sleep', 'ms': 1500})
        out.append((f'framing{i}', steps, {}))
    # the negotiated maximum: 65535 only when BOTH sides announced extended messages (RFC 8654), else 4096
    for ext in (True, False):
        for split in (None, [17], [19, 2000]):
            s = {'do': 'send', 'cls': 'UPD-4097' if ext else 'HDR-length-4097'}
            if split:
                s['split'] = split
                s['gap'] = 120
            steps = [{'do': 'est', 'caps': {'extmsg': ext}}, {'do': 'sleep', 'ms': 300}, s, {'do': 'send', 'cls': 'KA'}, {'do': 'sleep', 'ms': 1500}]
            out.append((f'maximum:ext={ext}:split={split}', steps, {}))
    return out


def run(tier: str) -> int:
    ck = Check('C06', tier, 'model_checking')
    ck.cov['rule'] = (
        'cases = (stream of message descriptors, negotiated maximum, set of cut positions) enumerated by TLC over ExaFraming (invariants '
        'Framed/Complete checked on all of them), each replayed into Connection.reader_async() and reader() over a socketpair and compared '
        'with the specification state; plus established sessions of the real Peer receiving messages in pieces around the 100 ms poll, '
        'validated by TLC against ExaSession; distinct = distinct (reader, stream, maximum, cuts); non-trivial = at least one cut or two messages'
    )
    ck.assumptions += ['alphabet of 10 header classes incl. every fault of RFC 4271 6.1 and the 4096/65535 boundary; cut offsets 1,15..20 and len-1 within each message']
    rnd = random.Random(seed())
    if tier == 'quick':
        cases = framecheck.cases_from_tlc(ck, 2, 1, 'c06q')
        framecheck.run_frames(ck, cases, rnd, 6000)
        n = 60
    else:
        cases = framecheck.cases_from_tlc(ck, 2, 2, 'c06t')
        framecheck.run_frames(ck, cases, rnd, 120000)
        n = 1500
    # peer level: framing across read polls
    sc = fam_framing(rnd, n)
    lines, meta = [], {}
    for tid, (name, steps, kw) in enumerate(sc):
        ln, _ = sessioncheck.run_scenario(steps, tid, **kw)
        lines += ln
        meta[tid] = (name, steps, kw)
        ck.count({'peer': steps})
    bad, res = sessioncheck.judge(lines, 'c06' + tier[0])
    ck.tlc(res, f'Trace_ExaSession: {len(sc)} established sessions with split deliveries')
    ck.cov['traces_validated_against_impl'] += len(sc)
    for b in bad:
        name, steps, kw = meta[b['tid']]
        for clause in b['clauses']:
            if clause.startswith(PEER_CLAUSES):
                ck.violation({'clause': clause, 'peer': True}, f'{clause} at t={b["t"]}ms in an established session receiving {[(s.get("cls"), s.get("split"), s.get("gap")) for s in steps if s["do"] == "send"]}', {'name': name, 'steps': steps, 'kw': kw, 'clause': clause})
    return ck.finish()


def replay(path: str) -> int:
    case = json.load(open(path))
    c = case['case']
    if 'steps' in c:
        return sessioncheck.replay_case(path, 'C06')
    data = b''.join(framecheck.build(d) for d in c['stream'])
    segs = framecheck.segments(data, c['cuts'])
    fn = framecheck.run_async if c['reader'] == 'reader_async' else framecheck.run_generator
    out, err, raw = fn(segs, c['maxLen'])
    print('delivered', out, 'error', err, 'specification', c['want'])
    if out != c['want']['out'] or err != c['want']['err']:
        print(f'VIOLATION property=C06 replay={path}')
        return 1
    print('replay: property held on this case')
    return 0
