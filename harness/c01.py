"""C01 - sent UPDATEs say exactly what the operator asked for."""

from __future__ import annotations

import json
import random

from harness import outcheck, tlc, updcheck
from harness.common import Check, seed

BASE = {'ibgp': False, 'local4': False, 'pasn4': True, 'addpath': False, 'ext': False, 'fam': 'v4u', 'pfx': 'a', 'pid': 'none', 'nh': 'given', 'second': False, 'origin': 'none',
        'aspath': 'none', 'med': 'none', 'pref': 'none', 'atomic': False, 'aggr': 'none', 'comm': 'none', 'orig': False}


def diff(u):
    return {k: v for k, v in u.items() if BASE.get(k) != v}


def execute(sessions, u) -> dict:
    key = (u['ibgp'], u['local4'], u['pasn4'], u['addpath'], u['ext'], u['second'])
    try:
        if key not in sessions:
            sessions[key] = outcheck.OutSession(*key[:5], second=key[5])
        msgs = sessions[key].encode([outcheck.route_text(u)])
        return {'error': '', 'msgs': [list(m) for m in msgs]}
    except Exception as exc:
        return {'error': type(exc).__name__ + ': ' + str(exc)[:150], 'msgs': []}


def run(tier: str) -> int:
    ck = Check('C01', tier, 'model_checking')
    ck.cov['rule'] = (
        'cases = rows (route text, negotiated session) enumerated by TLC (Gen_ExaUpdateOut: five base rows, Width of 17 fields changed: '
        'iBGP/eBGP, 2-/4-byte local AS, peer with/without ASN4, ADD-PATH, 4096/65535, IPv4/IPv6 unicast prefix shapes, path-id, next-hop '
        'given/self, and presence/value of every attribute keyword); the route text goes through the real parser, resolve_self and '
        'UpdateCollection.messages(); TLC decodes the emitted bytes with the TLA+ reference codec and compares with Expected(row); '
        'distinct = distinct rows; non-trivial = differs from the first base row'
    )
    ck.assumptions += ['families ipv4/ipv6 unicast; labeled/VPN/multicast routes and attribute keywords outside the listed ones are not decoded by ExaWire (see DESIGN 6)']
    rnd = random.Random(seed())
    states = updcheck.gen_rows(ck, 'Gen_ExaUpdateOut', 2 if tier == 'quick' else 3, 'c01' + tier[0], invariants=('TableOK',))
    limit = 5000 if tier == 'quick' else 60000
    ck.cov['exhaustive'] = len(states) <= limit
    if len(states) > limit:
        states = rnd.sample(states, limit)
    sessions, lines = {}, []
    for i, st in enumerate(states):
        u = st['u']
        out = execute(sessions, u)
        lines.append({'id': i, 'u': u, **out})
        ck.count(u, nontrivial=bool(diff(u)))
        if i in (1, len(states) // 2):
            ck.sample({'row': diff(u), 'text': outcheck.route_text(u), 'hex': [bytes(m).hex() for m in out['msgs']], 'error': out['error']})
    bad, res = updcheck.judge(lines, 'Judge_ExaUpdateOut', 'c01' + tier[0])
    ck.tlc(res, f'Judge_ExaUpdateOut: {len(lines)} encoded routes decoded and compared by TLC')
    ck.cov['traces_validated_against_impl'] = len(lines)
    for b in bad:
        ln = lines[b['id']]
        for clause in b['clauses']:
            d = diff(ln['u'])
            ck.violation({'clause': clause, 'changed': d}, f'{clause}: "{outcheck.route_text(ln["u"])}" on session {d}; error={ln["error"]!r}',
                         {'u': ln['u'], 'text': outcheck.route_text(ln['u']), 'hex': [bytes(m).hex() for m in ln['msgs']], 'clause': clause})
    return ck.finish()


def replay(path: str) -> int:
    case = json.load(open(path))
    c = case['case']
    out = execute({}, c['u'])
    bad, _ = updcheck.judge([{'id': 0, 'u': c['u'], **out}], 'Judge_ExaUpdateOut', 'replay')
    print(c['text'], [bytes(m).hex() for m in out['msgs']], out['error'])
    if any(c['clause'] in b['clauses'] for b in bad):
        print(f'VIOLATION property=C01 replay={path}')
        return 1
    print('replay: property held on this case')
    return 0
