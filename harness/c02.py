"""C02 - reported routes are exactly what the peer sent."""

from __future__ import annotations

import json
import random

from harness import updcheck
from harness.common import Check, seed

BASE = {'asn4': True, 'addpath': True, 'ibgp': False, 'extnh': False, 'mpr4': False, 'origin': 0, 'path': 'P2', 'as4': 'none', 'med': 'ten', 'pref': 'none', 'atomic': False, 'aggr': False,
        'comm': 'one', 'orig': False, 'unkT': 'none', 'unkNT': False, 'ext': False, 'partial': False, 'rev': False, 'nlri': 'one', 'wd': 'none', 'mpr': 'none',
        'mprLL': False, 'mpu': 'none', 'fault': ['none', 'none']}


def diff(u):
    return {k: v for k, v in u.items() if BASE.get(k) != v}


def run(tier: str) -> int:
    ck = Check('C02', tier, 'model_checking')
    ck.cov['rule'] = (
        'cases = abstract UPDATEs enumerated by TLC (Gen_ExaUpdateIn: a base UPDATE with up to Width of 23 fields changed: session ASN4 / '
        'ADD-PATH / iBGP, ORIGIN, AS_PATH shapes incl. AS_SET and 4-byte numbers, AS4_PATH shorter/equal/longer, MED, LOCAL_PREF, '
        'ATOMIC_AGGREGATE, AGGREGATOR, communities, ORIGINATOR/CLUSTER, unknown transitive / non-transitive attributes, extended-length '
        'and partial flags, attribute order, IPv4 NLRI / withdrawn sets, MP_REACH with one or two next hops, MP_UNREACH, End-of-RIB); '
        'bytes come from the TLA+ reference codec; the JSON event and Adj-RIB-In produced by the real code are judged by TLC against '
        'Outcome(u); distinct = distinct rows; non-trivial = differs from the base'
    )
    ck.assumptions += ['families ipv4/ipv6 unicast; the JSON strings documented by the API (origin names, as-path elements) are mapped to numbers by the harness']
    rnd = random.Random(seed())
    states = updcheck.gen_rows(ck, 'Gen_ExaUpdateIn', 2 if tier == 'quick' else 3, 'c02' + tier[0])
    limit = 5000 if tier == 'quick' else 80000
    ck.cov['exhaustive'] = len(states) <= limit
    if len(states) > limit:
        states = rnd.sample(states, limit)
    sessions = {}
    lines = []
    for i, st in enumerate(states):
        u = st['u']
        key = (u['asn4'], u['addpath'], u['ibgp'], u['extnh'])
        if key not in sessions:
            sessions[key] = updcheck.Session(*key)
        obs = updcheck.receive(sessions[key], bytes(st['bytes']))
        lines.append({'id': len(lines), 'src': i, 'u': u, 'obs': obs})
        # the same bytes again right behind (the attribute cache is keyed on them): must be reported identically
        obs2 = updcheck.receive(sessions[key], bytes(st['bytes']))
        lines.append({'id': len(lines), 'src': i, 'u': u, 'obs': obs2})
        ck.count(u, nontrivial=bool(diff(u)))
        if i in (1, len(states) // 2):
            ck.sample({'u': diff(u), 'hex': bytes(st['bytes']).hex(), 'observed': {k: v for k, v in obs.items() if v not in ([], '', False, -1, 'none')}})
    bad, res = updcheck.judge(lines, 'Judge_ExaUpdateIn', 'c02' + tier[0])
    ck.tlc(res, f'Judge_ExaUpdateIn: {len(lines)} UPDATEs')
    ck.cov['traces_validated_against_impl'] = len(lines)
    for b in bad:
        ln = lines[b['id']]
        for clause in b['clauses']:
            d = diff(ln['u'])
            rep = ' (second copy in a row)' if b['id'] % 2 else ''
            ck.violation({'clause': clause, 'changed': d, 'repeat': bool(b['id'] % 2)}, f'{clause}{rep}: UPDATE = base with {d}; error={ln["obs"]["error"]!r}', {'u': ln['u'], 'hex': bytes(states[ln['src']]['bytes']).hex(), 'obs': ln['obs'], 'clause': clause, 'repeat': bool(b['id'] % 2)})
    return ck.finish()


def replay(path: str) -> int:
    case = json.load(open(path))
    c = case['case']
    u = c['u']
    sess = updcheck.Session(u['asn4'], u['addpath'], u['ibgp'], u.get('extnh', False))
    obs = updcheck.receive(sess, bytes.fromhex(c['hex']))
    if c.get('repeat'):
        obs = updcheck.receive(sess, bytes.fromhex(c['hex']))
    bad, _ = updcheck.judge([{'id': 0, 'u': u, 'obs': obs}], 'Judge_ExaUpdateIn', 'replay')
    print('observed:', {k: v for k, v in obs.items() if v not in ([], '', False, -1, 'none')})
    if any(c['clause'] in b['clauses'] for b in bad):
        print(f'VIOLATION property=C02 replay={path}')
        return 1
    print('replay: property held on this case')
    return 0
