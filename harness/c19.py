"""C19 - decoding does not depend on what was decoded before.

TLC checks HistoryFree on ExaUpdateHist (the abstract model of the process-wide attribute cache) and its state dump gives
every history of <= MaxLen (session, message) steps over an alphabet chosen so that consecutive messages share attribute
bytes, differ only in MP presence, carry treat-as-withdraw, or mean something else on another session.  Each history is
executed in ONE process on two real sessions; every step is judged twice: by TLC against ExaUpdateIn!Outcome (a function
of bytes + session only) and against the same message decoded alone in a fresh interpreter."""

from __future__ import annotations

import json
import os
import random
import subprocess
import sys

from harness import tlc, updcheck
from harness.c02 import BASE, diff
from harness.common import Check, seed

B = dict(BASE)


def U(**kw):
    u = dict(B)
    u.update(kw)
    return u


AGG = dict(asn4=False, ibgp=True, path='P0', aggr=True, pref='hundred')
# message id -> {session name: (u that generated the bytes, u describing what those bytes mean on that session)}
ALPHABET = {
    'base': {'asn4': (U(), U()), 'asn2': (U(asn4=False), U(asn4=False))},
    'base6': {'asn4': (U(mpr='one'), U(mpr='one')), 'asn2': (U(asn4=False, mpr='one'), U(asn4=False, mpr='one'))},
    'wd': {'asn4': (U(nlri='none', wd='one'), U(nlri='none', wd='one')), 'asn2': (U(asn4=False, nlri='none', wd='one'), U(asn4=False, nlri='none', wd='one'))},
    'mixed': {'asn4': (U(mpu='one'), U(mpu='one')), 'asn2': (U(asn4=False, mpu='one'), U(asn4=False, mpu='one'))},
    # identical bytes on both sessions: a 6-byte AGGREGATOR is valid for a 2-byte peer and attribute-discard for a 4-byte peer
    'aggr2': {'asn4': (U(**AGG), U(**{**AGG, 'asn4': True, 'aggr': False})), 'asn2': (U(**AGG), U(**AGG))},
    'other': {'asn4': (U(med='zero'), U(med='zero')), 'asn2': (U(asn4=False, med='zero'), U(asn4=False, med='zero'))},
    'taw': {'asn4': (U(fault=['med', 'len']), None), 'asn2': (U(asn4=False, fault=['med', 'len']), None)},
    # identical bytes on both sessions: an AS_PATH which reads as [64512 64513][65000] with 2-byte and [4227922945 33684968] with 4-byte AS numbers
    'ambig': {'asn4': (U(path='P8'), U(path='P8')), 'asn2': (U(asn4=False, path='P7'), U(asn4=False, path='P7'))},
}
# every message also exists on the third session (4-byte AS numbers, AIGP enabled by the neighbour): the bytes of session asn4
for _per in ALPHABET.values():
    _per['asn4a'] = _per['asn4']
ALPHABET['aigp'] = {s: (U(asn4=s != 'asn2'), None) for s in ('asn4', 'asn2', 'asn4a')}      # bytes built in concrete(): base + AIGP attribute
SESS = {'asn4': (True, True, False, False), 'asn2': (False, True, False, False), 'asn4a': (True, True, False, False, True)}
SESS_IBGP = {'asn4': (True, True, True, False), 'asn2': (False, True, True, False), 'asn4a': (True, True, True, False, True)}
AIGP_ATTR = bytes([0x80, 26, 11, 1, 0, 11]) + (1000).to_bytes(8, 'big')     # optional non-transitive, AIGP TLV (type 1, length 11, metric 1000)


def with_attribute(raw: bytes, extra: bytes) -> bytes:
    """the UPDATE `raw` with one more path attribute at the end of its attribute block"""
    body = raw[19:]
    wl = int.from_bytes(body[:2], 'big')
    al = int.from_bytes(body[2 + wl : 4 + wl], 'big')
    new = body[: 2 + wl] + (al + len(extra)).to_bytes(2, 'big') + body[4 + wl : 4 + wl + al] + extra + body[4 + wl + al :]
    return raw[:16] + (19 + len(new)).to_bytes(2, 'big') + raw[18:19] + new


def key_of(u):
    return json.dumps({k: u[k] for k in sorted(u)}, sort_keys=True)


def concrete(ck: Check) -> dict:
    """bytes for every (message id, session) from the TLA+ reference codec"""
    rows = updcheck.gen_rows(ck, 'Gen_ExaUpdateIn', 2, 'c19enc') + updcheck.gen_rows(ck, 'Gen_ExaUpdateFault', 1, 'c19encf', invariants=('OuterStructureOK',))
    table = {key_of(st['u']): bytes(st['bytes']) for st in rows}
    out = {}
    for mid, per in ALPHABET.items():
        for s, (ugen, umean) in per.items():
            k = key_of(ugen)
            if k not in table:
                raise tlc.TLCError(f'the reference codec did not enumerate message {mid}/{s}: {diff(ugen)}')
            out[(mid, s)] = (with_attribute(table[k], AIGP_ATTR) if mid == 'aigp' else table[k], umean, ugen)
    assert out[('aggr2', 'asn4')][0] == out[('aggr2', 'asn2')][0], 'aggr2 must be the same bytes on both sessions'
    assert out[('ambig', 'asn4')][0] == out[('ambig', 'asn2')][0], 'ambig must be the same bytes on both sessions'
    assert out[('aigp', 'asn4')][0] == out[('aigp', 'asn4a')][0], 'aigp must be the same bytes on the two 4-byte sessions'
    return out


def sessions_for(ibgp: bool):
    from exabgp.bgp.message.update.attribute import Attribute

    Attribute.caching = True  # what application/server.py does by default (exabgp.cache.attributes)
    return {name: updcheck.Session(*(SESS_IBGP if ibgp else SESS)[name]) for name in ('asn4', 'asn2', 'asn4a')}


def swap_sessions(pair: dict, a: str, b: str, ibgp: bool, stats: dict) -> None:
    """ExaUpdateHist!Swap: sessions a and b are closed, and the sessions opened in their place are given each other's memory
    (as far as the allocator can be talked into it: b is closed last and a opened first, so that the Negotiated of the new a
    is allocated where the one of the old b was -- unless something still holds the old one, as the intended cache does)"""
    import gc

    want = {a: id(pair[b].neg), b: id(pair[a].neg)}
    pair[a].close()
    pair[b].close()
    gc.collect()
    for name in (a, b):
        spare = []
        for _ in range(64):
            # connections keep coming; the one which is given the memory of the closed session is the one which goes on
            pair[name].connect()
            if id(pair[name].neg) == want[name]:
                break
            spare.append(pair[name].neg)
        pair[name].exchange()
        del spare
        stats['swaps'] = stats.get('swaps', 0) + 1
        stats['swaps_at_the_other_address'] = stats.get('swaps_at_the_other_address', 0) + (id(pair[name].neg) == want[name])


def alone(session: str, hexbytes: str, ibgp: bool) -> dict:
    """decode one message in a fresh interpreter"""
    env = dict(os.environ)
    p = subprocess.run([sys.executable, '-m', 'harness.c19', '--alone', session, hexbytes, '1' if ibgp else '0'], capture_output=True, text=True, env=env, cwd=os.path.dirname(os.path.dirname(os.path.abspath(__file__))))
    if p.returncode != 0:
        raise tlc.TLCError('fresh-interpreter decode failed: ' + p.stderr[-800:])
    return json.loads(p.stdout.strip().splitlines()[-1])


def norm(obs: dict) -> dict:
    o = dict(obs)
    for k in ('announce', 'withdraw', 'ribin'):
        o[k] = sorted(o.get(k, []))
    o.pop('marker', None)
    return o


OPEN_CAPS = {'plain': [], 'rr2': [b'\x02\x00'], 'rr128': [b'\x80\x00'], 'both': [b'\x02\x00', b'\x80\x00'], 'rev': [b'\x80\x00', b'\x02\x00'],
             'ms68': [b'\x44\x01\x00'], 'ms131': [b'\x83\x01\x00']}


def open_body(kind: str) -> bytes:
    """an OPEN (RFC 4271 4.2) of AS 65001, hold time 180, identifier 1.2.3.4: the 4-byte AS capability, then one optional parameter
    (type 2) per capability of the kind, in the order of ExaOpenHist!Codes"""
    params = b''.join(bytes([2, len(c)]) + c for c in [b'\x41\x04' + (65001).to_bytes(4, 'big')] + OPEN_CAPS[kind])
    return bytes([4]) + (65001).to_bytes(2, 'big') + (180).to_bytes(2, 'big') + bytes([1, 2, 3, 4, len(params)]) + params


def rendering(op) -> list:
    """[code, variant] for the capabilities ExaOpenHist speaks of, as the API encoder renders them now"""
    out = []
    for code, cap in op.capabilities.items():
        if int(code) in (2, 128, 68, 131):
            out.append([int(code), json.loads(cap.json())['variant']])
    return sorted(out)


def open_histories(ck: Check, tier: str) -> None:
    """ExaOpenHist: histories of OPEN messages; every decoded OPEN renders as its own bytes say, at once and after everything else"""
    from exabgp.bgp.message.open import Open
    from exabgp.bgp.message.open.capability.negotiated import Negotiated

    maxlen = 3 if tier == 'quick' else 5
    cfg = open(os.path.join(tlc.SPEC, 'MC_ExaOpenHist.cfg')).read().replace('MaxLen = 3', f'MaxLen = {maxlen}')
    res, states = tlc.dump_states('ExaOpenHist', '', 'c19open', ['hist'], cfg_text=cfg, workers=4)
    ck.tlc(res, f'ExaOpenHist: all histories of <= {maxlen} OPENs over 7 kinds; invariant HistoryFree (identifier owned by the decoded object)')
    if not res.ok:
        raise tlc.TLCError('ExaOpenHist: ' + res.out[-1500:])
    broken = tlc.run('ExaOpenHist', os.path.join(tlc.SPEC, 'MC_ExaOpenHist_asis.cfg'), 'c19openasis', workers=4)
    ck.tlc(broken, 'ExaOpenHist with SharedId = TRUE (identifier kept on the class: must be rejected)')
    if broken.violated_invariant != 'HistoryFree':
        raise tlc.TLCError('ExaOpenHist with a class-level identifier should violate HistoryFree (vacuity guard): ' + broken.out[-800:])
    # Meaning(kind), from the specification
    mod = os.path.join(tlc.WORK, 'TableExaOpenHist.tla')
    open(mod, 'w').write('---- MODULE TableExaOpenHist ----\nEXTENDS ExaOpenHist\nVARIABLES t, z\nTSpec == Init /\\ t = [k \\in Kinds |-> Meaning(k)] /\\ z = 0 /\\ [][UNCHANGED <<hist, classId, t, z>>]_<<hist, classId, t, z>>\n====\n')
    _, tab = tlc.dump_states(mod, '', 'c19opentab', ['t'], cfg_text='SPECIFICATION TSpec\nCONSTANTS\n  MaxLen = 1\n  SharedId = FALSE\nCHECK_DEADLOCK FALSE\n', workers=1)
    meaning = {k: sorted([int(c), v] for c, v in pairs['__set__']) for k, pairs in tab[0]['t'].items()}
    hists = sorted([list(st['hist']) for st in states if st['hist']])
    n = 0
    for h in hists:
        decoded = []
        for step, kind in enumerate(h):
            op = Open.unpack_message(open_body(kind), Negotiated.UNSET)
            decoded.append((kind, op))
            got = rendering(op)
            if got != meaning[kind]:
                ck.violation({'clause': 'C19-open-capability-not-rendered-as-its-code-says', 'message': kind, 'after': h[max(0, step - 2):step]},
                             f'C19-open-capability-not-rendered-as-its-code-says: OPEN {kind} after {h[:step]} renders {got}, its bytes say {meaning[kind]}',
                             {'open_history': h, 'step': step, 'message': kind})
        for i, (kind, op) in enumerate(decoded):
            got = rendering(op)
            if got != meaning[kind]:
                ck.violation({'clause': 'C19-decoded-open-altered-by-later-decoding', 'message': kind, 'later': h[i + 1:][:2]},
                             f'C19-decoded-open-altered-by-later-decoding: OPEN {kind} (step {i} of {h}) renders {got} at the end of the history, its bytes say {meaning[kind]}',
                             {'open_history': h, 'step': i, 'message': kind, 'at_end': True})
        ck.count(['open'] + h, nontrivial=len(h) >= 2)
        n += 1
    ck.notes.append(f'ExaOpenHist: {n} histories of OPEN messages replayed into Open.unpack_message, every capability rendered at once and again at the end')


def run(tier: str) -> int:
    ck = Check('C19', tier, 'model_checking')
    ck.cov['rule'] = (
        'cases = histories of (session, message) steps: every history of <= 3 steps (quick: a sample which keeps every decode / swap / decode history; thorough: all) over 9 message kinds x 3 sessions (4-byte / 2-byte AS / 4-byte AS with AIGP enabled), '
        'taken from the state dump of ExaUpdateHist after TLC checked HistoryFree on it; each history runs in one process on two real sessions; '
        'every step is compared by TLC with ExaUpdateIn!Outcome and with the same bytes decoded alone in a fresh interpreter, and every '
        'collection returned earlier is rendered again at the end; distinct = distinct histories; non-trivial = at least two steps'
    )
    ck.assumptions += ['Attribute.caching = True as application/server.py sets it by default; the two sessions share one interpreter as in the reactor']
    # both tiers take the histories of <= 3 steps (Swap steps included): quick a sample around every "decode, swap, decode" history,
    # thorough all of them (with Swap in the model the dump of 4 steps is 700 000 histories: too many to replay)
    maxlen = 3
    cfg = open(os.path.join(tlc.SPEC, 'MC_ExaUpdateHist.cfg')).read().replace('MaxLen = 3', f'MaxLen = {maxlen}')
    res, states = tlc.dump_states('MC_ExaUpdateHist', '', 'c19hist', ['hist'], cfg_text=cfg)
    ck.tlc(res, f'MC_ExaUpdateHist: all histories of <= {maxlen} steps; invariant HistoryFree (cache keyed on bytes AND session)')
    if not res.ok:
        raise tlc.TLCError('MC_ExaUpdateHist: ' + res.out[-1500:])
    # vacuity guard: the cache keyed on the raw bytes only (what the tree had before fix 3caae64) must violate HistoryFree
    broken = tlc.run('MC_ExaUpdateHist', os.path.join(tlc.SPEC, 'MC_ExaUpdateHist_asis.cfg'), 'c19asis', workers=8)
    ck.tlc(broken, 'MC_ExaUpdateHist with KeyIncludesSession = FALSE (must be rejected)')
    if broken.violated_invariant != 'HistoryFree':
        raise tlc.TLCError('ExaUpdateHist keyed on bytes only should violate HistoryFree (vacuity guard): ' + broken.out[-800:])
    ck.notes.append('vacuity guard: ExaUpdateHist with the bytes-only cache key violates HistoryFree, as it must')
    byaddr = tlc.run('MC_ExaUpdateHist', os.path.join(tlc.SPEC, 'MC_ExaUpdateHist_addr.cfg'), 'c19addr', workers=8)
    ck.tlc(byaddr, 'MC_ExaUpdateHist with KeyByAddress = TRUE (the address of a closed session is given to another one: must be rejected)')
    if byaddr.violated_invariant != 'HistoryFree':
        raise tlc.TLCError('ExaUpdateHist keyed on the address of the session should violate HistoryFree (vacuity guard): ' + byaddr.out[-800:])
    hists = [[tuple(x) for x in st['hist']] for st in states if st['hist']]
    rnd = random.Random(seed())
    limit = 3500 if tier == 'quick' else 30000
    ck.cov['exhaustive'] = len(hists) <= limit
    if len(hists) > limit:
        # every history "decode, sessions swapped, decode" is kept; the others are sampled
        core = [h for h in hists if len(h) == 3 and h[1][0] == 'swap' and h[0][0] != 'swap' and h[2][0] != 'swap']
        rest = [h for h in hists if not (len(h) == 3 and h[1][0] == 'swap' and h[0][0] != 'swap' and h[2][0] != 'swap')]
        hists = core + rnd.sample(rest, max(0, min(len(rest), limit - len(core) // 2)))
    open_histories(ck, tier)
    conc = concrete(ck)
    # oracle 2: every distinct (session, bytes) decoded alone in a fresh interpreter (the iBGP pair for aggr2, eBGP for the others)
    fresh = {}
    for (mid, s), (raw, umean, ugen) in conc.items():
        fresh[(mid, s)] = norm(alone(s, raw.hex(), ugen['ibgp']))
    lines = []
    swapstats: dict = {}
    for hi, h in enumerate(hists):
        ibgp = any(mid == 'aggr2' for _, mid in h)
        # aggr2 is an iBGP message (LOCAL_PREF): such histories run on the iBGP pair of sessions, the others on the eBGP pair
        pair = sessions_for(ibgp)
        kept = []
        for step, (s, mid) in enumerate(h):
            if s == 'swap':
                swap_sessions(pair, mid[0], mid[1], ibgp, swapstats)
                continue
            raw, umean, ugen = conc[(mid, s)]
            if ugen['ibgp'] != ibgp:
                continue  # a message built for the other kind of peering: skip the step
            sess = pair[s]
            obs = updcheck.receive(sess, raw)
            case = {'history': [list(x) for x in h], 'step': step, 'session': s, 'message': mid}
            want = fresh.get((mid, s))
            if ugen['ibgp'] == ibgp and norm(obs) != want:
                fields = [k for k in want if norm(obs).get(k) != want.get(k)]
                ck.violation({'clause': 'C19-differs-from-fresh-process', 'message': mid, 'session': s, 'after': [list(x) for x in h[max(0, step - 2):step]], 'fields': fields},
                             f'C19-differs-from-fresh-process: message {mid} on session {s} after {h[:step]} differs in {fields} from the same bytes decoded alone', {**case, 'hex': raw.hex(), 'got': obs, 'fresh': want})
            if umean is not None:
                lines.append({'id': len(lines), 'u': umean, 'obs': obs, 'case': case, 'hex': raw.hex()})
            kept.append((sess, raw, obs))
        ck.count([list(x) for x in h], nontrivial=len(h) >= 2)
        if hi in (5, len(hists) // 2):
            ck.sample({'history': [list(x) for x in h], 'last_step_observed': {k: v for k, v in kept[-1][2].items() if v not in ([], '', False, -1, 'none')} if kept else {}})
    ck.cov['session_swaps'] = swapstats
    ck.notes.append(f'Swap steps: {swapstats.get("swaps", 0)} sessions re-opened, {swapstats.get("swaps_at_the_other_address", 0)} of them with their Negotiated at the address the other closed session had')
    if swapstats.get('swaps') and not swapstats.get('swaps_at_the_other_address'):
        raise tlc.TLCError('no re-opened session was given the memory of the other closed one: the Swap steps exercised nothing')
    bad, jres = updcheck.judge([{k: v for k, v in ln.items() if k in ('id', 'u', 'obs')} for ln in lines], 'Judge_ExaUpdateIn', 'c19' + tier[0])
    ck.tlc(jres, f'Judge_ExaUpdateIn: {len(lines)} decoded steps')
    ck.cov['traces_validated_against_impl'] = len(hists)
    for b in bad:
        ln = lines[b['id']]
        c = ln['case']
        for clause in b['clauses']:
            if clause == 'C02-adj-rib-in-differs' and ln['obs'].get('dropped'):
                continue  # attribute-discard makes read_message drop the UPDATE from the Adj-RIB-In: not a matter of history (see C08)
            ck.violation({'clause': 'C19-' + clause, 'message': c['message'], 'session': c['session'], 'after': c['history'][max(0, c['step'] - 2):c['step']]},
                         f'{clause}: message {c["message"]} on session {c["session"]} after {c["history"][:c["step"]]} is not what its bytes say', {**c, 'hex': ln['hex'], 'got': ln['obs'], 'u': ln['u']})
    return ck.finish()


def replay(path: str) -> int:
    case = json.load(open(path))
    c = case['case']
    if 'open_history' in c:
        from exabgp.bgp.message.open import Open
        from exabgp.bgp.message.open.capability.negotiated import Negotiated

        # Meaning of ExaOpenHist for the kinds involved (code -> variant is the whole of it)
        variant = {2: 'RFC', 68: 'RFC', 128: 'Cisco', 131: 'Cisco'}
        decoded = [Open.unpack_message(open_body(k), Negotiated.UNSET) for k in (c['open_history'] if c.get('at_end') else c['open_history'][: c['step'] + 1])]
        got = rendering(decoded[c['step']])
        want = sorted([code, variant[code]] for code, _ in got)
        print('OPEN', c['message'], 'in', c['open_history'], 'renders', got, '; its bytes say', want)
        if got != want:
            print(f'VIOLATION property=C19 replay={path}')
            return 1
        print('replay: property held on this case')
        return 0
    ck = Check('C19', 'quick', 'model_checking')
    conc = concrete(ck)
    h = [tuple(x) for x in c['history']]
    ibgp = any(mid == 'aggr2' for _, mid in h)
    pair = sessions_for(ibgp)
    obs = None
    for step, (s, mid) in enumerate(h[: c['step'] + 1]):
        if s == 'swap':
            swap_sessions(pair, mid[0], mid[1], ibgp, {})
            continue
        raw, umean, ugen = conc[(mid, s)]
        if ugen['ibgp'] != ibgp:
            continue
        obs = updcheck.receive(pair[s], raw)
    want = norm(alone(c['session'], c['hex'], ibgp))
    print('in history:', norm(obs))
    print('alone     :', want)
    if norm(obs) != want:
        print(f'VIOLATION property=C19 replay={path}')
        return 1
    print('replay: property held on this case')
    return 0


if __name__ == '__main__' and len(sys.argv) > 1 and sys.argv[1] == '--alone':
    from exabgp.bgp.message.update.attribute import Attribute

    Attribute.caching = True
    ib = sys.argv[4] == '1'
    sess = updcheck.Session(*(SESS_IBGP if ib else SESS)[sys.argv[2]])
    print(json.dumps(updcheck.receive(sess, bytes.fromhex(sys.argv[3]))))
