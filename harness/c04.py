"""C04 - Adj-RIB-Out converges."""

from __future__ import annotations

import json

from harness import ribcheck
from harness.common import Check

RULES = {'A1-adj-rib-out-differs-from-intent', 'A2-peer-table-differs-after-drain'}


def run(tier: str) -> int:
    ck = Check('C04', tier, 'model_checking')
    ck.cov['rule'] = (
        'cases = histories of ExaRib actions: one per distinct (specification state, last action) found by TLC breadth-first '
        'search up to the stated depth, plus seeded random histories; each is replayed on the real OutgoingRIB, drained, and '
        'judged by TLC (Obs_ExaRib + Trace_ExaRib); distinct = distinct modulo renaming of keys/attributes; non-trivial = at least two actions'
    )
    ck.assumptions += [
        'keys: k1=10.0.1.0/24, k3=2001:db8:3::/48, k4 = second ADD-PATH path of the prefix of k1, k7 = labeled 10.0.7.0/24 (x / y differ in the label only); attrs: x, y (+z)',
        'wire messages are abstracted to (announce/withdraw, key, attribute signature) by harness/wire.py (RFC 4271/4760/7911 splitter)',
        'paths-limit not configured; adj-rib-out kept',
    ]
    if tier == 'quick':
        ribcheck.model_check(ck, ['k1', 'k3'], ['x', 'y'], 7, 'c04q')
        ribcheck.run_rib(ck, 'C04', ['k1', 'k3'], ['x', 'y'], 4, 300, RULES, 'c04q')
        # two ADD-PATH paths of one prefix: the key of a route is (family, path-id, prefix), not the prefix
        ribcheck.run_rib(ck, 'C04', ['k6', 'k4'], ['x', 'y'], 3, 400, RULES, 'c04qp')
        # a labeled route whose "attribute sets" x and y differ in the label only: the label is payload, a change of it must reach the peer
        ribcheck.run_rib(ck, 'C04', ['k7', 'k1'], ['x', 'y'], 3, 200, RULES, 'c04ql')
    else:
        ribcheck.model_check(ck, ['k1', 'k3'], ['x', 'y'], 9, 'c04t', timeout=2400)
        ribcheck.run_rib(ck, 'C04', ['k1', 'k3'], ['x', 'y'], 5, 3000, RULES, 'c04t')
        ribcheck.run_rib(ck, 'C04', ['k1', 'k4', 'k3'], ['x', 'y', 'z'], 3, 3000, RULES, 'c04t3')
        ribcheck.run_rib(ck, 'C04', ['k7', 'k1'], ['x', 'y', 'z'], 4, 2000, RULES, 'c04tl')
    return ck.finish()


def replay(path: str) -> int:
    from harness.ribdrv import RibWorld

    case = json.load(open(path))
    world = RibWorld()
    keys = case['case']['keys']
    lines = ribcheck.execute(world, case['case']['script'], keys, 0)
    obs, rejected, _, _ = ribcheck.judge(lines, keys, ['x', 'y', 'z'], 'replay')
    rule = case['fingerprint']['rule']
    hit = any(rule in v['rules'] for v in obs)
    for ln in lines[1:]:
        print({k: v for k, v in ln.items() if k != 'tid'})
    if hit:
        print(f'VIOLATION property={case["property"]} replay={path}')
        return 1
    print('replay: property held on this case')
    return 0
