"""C03 - no peer input can crash or wedge the speaker."""

from __future__ import annotations

import json
import os
import random
import struct
import sys

os.environ.setdefault('exabgp_log_enable', 'false')

from exabgp.bgp.message import Message, Open
from exabgp.bgp.message.direction import Direction
from exabgp.bgp.message.notification import Notify
from exabgp.bgp.message.open.capability.capabilities import Capabilities
from exabgp.bgp.message.open.capability.negotiated import Negotiated
from exabgp.bgp.message.open.version import Version
from exabgp.configuration.configuration import Configuration
from exabgp.rib import RIB

from harness import bgpmsg, c13, tlc, updcheck
from harness.common import Check, seed

FAMS_ALL = 'ipv4 unicast; ipv6 unicast; ipv4 multicast; ipv4 nlri-mpls; ipv4 mpls-vpn; ipv6 mpls-vpn; ipv4 flow; ipv6 flow; l2vpn vpls; l2vpn evpn; bgp-ls bgp-ls;'
PEER_ALL = ((1, 1), (2, 1), (1, 2), (1, 4), (1, 128), (2, 128), (1, 133), (2, 133), (25, 65), (25, 70), (16388, 71))
NEGS = {
    'min': dict(fams='ipv4 unicast;', caps='asn4 disable; add-path disable; extended-message disable;', peer=((1, 1),), asn4=False, addpath=False, ext=False),
    'typ': dict(fams='ipv4 unicast; ipv6 unicast;', caps='add-path send/receive; extended-message disable;', peer=((1, 1), (2, 1)), asn4=True, addpath=True, ext=False),
    'ext': dict(fams=FAMS_ALL, caps='add-path send/receive; extended-message enable; operational enable;', peer=PEER_ALL, asn4=True, addpath=True, ext=True),
    'all': dict(fams='all', caps='add-path disable; extended-message enable; operational enable;', peer='all', asn4=True, addpath=False, ext=True),
}


def corpus() -> list[tuple[int, bytes]]:
    """(type, body) of every message ExaBGP's functional tests hold: qa/encoding '<n>:raw:marker:length:type:body' and qa/decoding line 2"""
    import glob

    from harness.common import REPO

    seen, out = set(), []
    for path in sorted(glob.glob(os.path.join(REPO, 'qa', 'encoding', '*.ci'))):
        for line in open(path, errors='replace'):
            parts = line.strip().split(':')
            if len(parts) >= 6 and parts[1] == 'raw':
                try:
                    item = (int(parts[4], 16), bytes.fromhex(parts[5]))
                except ValueError:
                    continue
                if item not in seen:
                    seen.add(item)
                    out.append(item)
    for path in sorted(glob.glob(os.path.join(REPO, 'qa', 'decoding', '*'))):
        lines = open(path, errors='replace').read().splitlines()
        if len(lines) >= 2:
            try:
                item = (1 if lines[0].startswith('open') else 2, bytes.fromhex(lines[1].strip()))
            except ValueError:
                continue
            if item not in seen:
                seen.add(item)
                out.append(item)
    return out


def make_neg(kind: str):
    spec = NEGS[kind]
    RIB._cache.clear()
    text = f"""neighbor 127.0.0.2 {{
  router-id 1.2.3.4; local-address 127.0.0.1; local-as 65000; peer-as 65001; hold-time 90;
  family {{ {spec['fams']}{'' if spec['fams'].strip().endswith(';') else ';'} }}
  capability {{ route-refresh enable; {spec['caps']} }}
}}
"""
    conf = Configuration([text], text=True)
    if not conf.reload():
        raise RuntimeError('harness configuration refused: %s' % conf.error)
    n = list(conf.neighbors.values())[0]
    neg = Negotiated.make_negotiated(n, Direction.IN)
    neg.sent(Open.make_open(Version(4), n.session.local_as, n.hold_time, n.session.router_id, Capabilities().new(n, False)))
    if spec['peer'] == 'all':
        spec = dict(spec, peer=sorted({(int(a), int(b)) for a, b in n.families()}))
    caps = [bgpmsg.cap_mp(a, s) for a, s in spec['peer']] + [bgpmsg.cap_rr()]
    if spec['asn4']:
        caps.append(bgpmsg.cap_asn4(65001))
    if spec['addpath']:
        caps.append(bgpmsg.cap_addpath([(1, 1, 3), (2, 1, 3)]))
    if spec['ext']:
        caps.append(bgpmsg.cap_extmsg())
    raw = bgpmsg.open_msg(65001, 90, '5.6.7.8', caps, one_param_per_cap=True)
    neg.received(Message.unpack(1, raw[19:], neg))
    assert bool(neg.asn4) == spec['asn4'] and int(neg.msg_size) == (65535 if spec['ext'] else 4096), (kind, neg.asn4, neg.msg_size)
    return neg


def count(scale: str, unit: int, overhead: int, limit: int) -> int:
    """how many elements of `unit` bytes: a handful, hundreds, or as many as fit in a body of `limit` bytes"""
    fit = max(1, (limit - overhead) // unit)
    return {'few': 5, 'hundreds': 300, 'fill4k': (4096 - 19 - overhead) // unit, 'fill64k': (65535 - 19 - overhead) // unit}[scale] if scale in ('few', 'hundreds') and {'few': 5, 'hundreds': 300}[scale] <= fit else (min(fit, (4096 - 19 - overhead) // unit) if scale != 'fill64k' else fit)


def open_body(params: bytes, extended: bool = False) -> bytes:
    head = bytes([4]) + struct.pack('!HH', 65001, 90) + bytes([5, 6, 7, 8])
    if extended:
        return head + bytes([255, 255]) + struct.pack('!H', len(params)) + params
    return head + bytes([len(params)]) + params


def build(shape: str, scale: str, negname: str) -> tuple[int, bytes]:
    spec = NEGS[negname]
    limit = (65535 if spec['ext'] else 4096) - 19
    pid = b'\x00\x00\x00\x07' if spec['addpath'] else b''
    base = bgpmsg.base_attrs(asn4=spec['asn4'])
    asn = (lambda a: struct.pack('!L', a)) if spec['asn4'] else (lambda a: struct.pack('!H', a))

    def upd(attrs: bytes = base, nlri: bytes = b'', wd: bytes = b'') -> bytes:
        return struct.pack('!H', len(wd)) + wd + struct.pack('!H', len(attrs)) + attrs + nlri

    if shape == 'open-plain':
        return 1, bgpmsg.open_msg(65001, 90, '5.6.7.8', [bgpmsg.cap_mp(1, 1), bgpmsg.cap_asn4(65001)])[19:]
    if shape in ('open-many-caps', 'open-cap-repeated'):
        one = (lambda i: bgpmsg.cap(200 + i % 40, b'\x01\x02')) if shape == 'open-many-caps' else (lambda i: bgpmsg.cap_mp(1, 1))
        n = min(count(scale, len(one(0)), 0, 253), 253 // len(one(0)))
        caps = b''.join(one(i) for i in range(n))
        return 1, open_body(bytes([2, len(caps)]) + caps)
    if shape == 'open-one-param-per-cap':
        n = min(count(scale, 6, 0, 255), 255 // 6)
        return 1, open_body(b''.join(bytes([2, 4]) + bgpmsg.cap(200 + i % 40, b'\x01\x02') for i in range(n)))
    if shape == 'open-rfc9072':
        n = count(scale, 7, 14, 4096 - 19)
        return 1, open_body(b''.join(bytes([2]) + struct.pack('!H', 4) + bgpmsg.cap(200 + i % 40, b'\x01\x02') for i in range(n)), extended=True)
    if shape in ('upd-unknown-attrs', 'upd-unknown-nontransitive', 'upd-repeated-attr'):
        flag = 0x80 if shape == 'upd-unknown-nontransitive' else 0xC0
        n = count(scale, 3, len(base) + 8 + len(pid), limit)
        extra = b''.join(bytes([flag, 200 if shape == 'upd-repeated-attr' else 200 + i % 50, 0]) for i in range(n))
        return 2, upd(base + extra, pid + b'\x18\x0a\x00\x00')
    if shape == 'upd-communities':
        n = count(scale, 4, len(base) + 12 + len(pid), limit)
        return 2, upd(base + bgpmsg.attr(0xC0, 8, b''.join(struct.pack('!HH', 65000, i % 65536) for i in range(n))), pid + b'\x18\x0a\x00\x00')
    if shape == 'upd-aspath-segments':
        w = 4 if spec['asn4'] else 2
        n = count(scale, 2 + w, 40, limit)
        path = b''.join(bytes([2, 1]) + asn(65001) for _ in range(n))
        attrs = bgpmsg.attr(0x40, 1, b'\x00') + bgpmsg.attr(0x40, 2, path) + bgpmsg.attr(0x40, 3, bytes([192, 0, 2, 77]))
        return 2, upd(attrs, pid + b'\x18\x0a\x00\x00')
    if shape in ('upd-nlri', 'upd-withdraws'):
        n = count(scale, 4 + len(pid), len(base) + 4, limit)
        items = b''.join(pid + bytes([24, 10 + (i >> 16) % 100, (i >> 8) & 255, i & 255]) for i in range(n))
        return 2, (upd(base, items) if shape == 'upd-nlri' else upd(b'', b'', items))
    if shape == 'upd-mp-nlri':
        if negname == 'min':
            n = count(scale, 4, len(base) + 20, limit)
            mp = bgpmsg.attr(0x80, 14, struct.pack('!HBB', 1, 1, 4) + bytes([192, 0, 2, 77]) + b'\x00' + b''.join(bytes([24, 10, (i >> 8) & 255, i & 255]) for i in range(n)))
        else:
            n = count(scale, 7 + len(pid), len(base) + 40, limit)
            nh = bytes.fromhex('20010db8000000000000000000000001')
            mp = bgpmsg.attr(0x80, 14, struct.pack('!HBB', 2, 1, 16) + nh + b'\x00' + b''.join(pid + bytes([48, 0x20, 0x01, 0x0D, 0xB8, (i >> 8) & 255, i & 255]) for i in range(n)))
        attrs = bgpmsg.attr(0x40, 1, b'\x00') + bgpmsg.attr(0x40, 2, bytes([2, 1]) + asn(65001)) + mp
        return 2, upd(attrs)
    if shape == 'upd-one-big-attr':
        n = count(scale, 1, len(base) + 16 + len(pid), limit)
        return 2, upd(base + bgpmsg.attr(0xC0, 250, bytes(i % 251 for i in range(n))), pid + b'\x18\x0a\x00\x00')
    if shape == 'upd-plain':
        return 2, upd(base, pid + b'\x18\x0a\x00\x00')
    if shape == 'upd-eor':
        return 2, b'\x00\x00\x00\x00'
    if shape == 'notif-plain':
        return 3, bytes([6, 2])
    if shape == 'notif-data':
        n = count(scale, 1, 2, limit)
        return 3, bytes([2, 2]) + bytes(65 + i % 26 for i in range(n))
    if shape == 'ka':
        return 4, b''
    if shape == 'rr-plain':
        return 5, struct.pack('!HBB', 1, 0, 1)
    if shape == 'rr-bor':
        return 5, struct.pack('!HBB', 1, 1, 1)
    if shape == 'oper-adm':
        n = count(scale, 1, 8, limit)
        body = struct.pack('!HB', 1, 1) + bytes(65 + i % 26 for i in range(n))
        return 6, struct.pack('!HH', 1, len(body)) + body
    if shape == 'oper-unknown':
        n = count(scale, 1, 4, limit)
        return 6, struct.pack('!HH', 0x7777, n) + bytes(i % 256 for i in range(n))
    raise KeyError(shape)


def damage(body: bytes, mut: dict, key: str) -> bytes:
    m, p, v = mut['m'], mut['p'], mut['v']
    if m == 'none':
        return body
    if m == 'append1':
        return body + b'\x00'
    if m == 'append-many':
        return body + bytes(range(1, 40))
    if m.startswith('cut'):
        k = {'cut0': 0, 'cut1': 1, 'cut2': 2, 'cut3': 3, 'cut-half': len(body) // 2, 'cut-last1': max(len(body) - 1, 0), 'cut-last2': max(len(body) - 2, 0)}[m]
        return body[:k]
    if m == 'byte':
        if p >= len(body):
            return body + bytes([v])
        return body[:p] + bytes([v]) + body[p + 1 :]
    rnd = random.Random(f'{key}:{m}:{p}:{seed()}')
    if m == 'flip':
        b = bytearray(body or b'\x00')
        for _ in range(rnd.randint(1, 3)):
            b[rnd.randrange(len(b))] = rnd.randrange(256)
        return bytes(b)
    return bytes(rnd.randrange(256) for _ in range(rnd.choice([0, 1, 2, 3, 4, 7, 12, 23, 40, 90, 300])))


class Meter:
    def __init__(self) -> None:
        self.calls = 0
        self.depth = 0
        self.max = 0

    def __call__(self, frame, event, arg):
        if event == 'call':
            self.calls += 1
            self.depth += 1
            if self.depth > self.max:
                self.max = self.depth
        elif event == 'return':
            self.depth -= 1


def force(msg, neg, worlds) -> None:
    """everything the reactor, the logs or an API helper may later ask of the decoded message"""
    if msg.ID == 2 and not getattr(msg, 'IS_EOR', False):
        data = msg.data
        for n in list(data.announces) + list(data.withdraws):
            nlri = getattr(n, 'nlri', n)
            str(nlri)
            nlri.json()
        str(data.attributes)
        data.attributes.json()
    else:
        str(msg)
    for w in worlds:
        w.p.message(msg.ID, w.peer, 'receive', msg, b'', b'', neg)
        w.drain()


CORPUS: list = []


def execute(u: dict, negs: dict, worlds) -> dict:
    if u['shape'] == 'corpus':
        if not CORPUS:
            CORPUS.extend(corpus())
        typ, body = CORPUS[u['idx'] - 1]
    else:
        typ, body = build(u['shape'], u['scale'], u['neg'])
    body = damage(body, u['mut'], f'{u["shape"]}:{u["scale"]}:{u["neg"]}:{u["idx"]}')
    neg = negs[u['neg']]
    meter = Meter()
    out = {'kind': 'decoded', 'code': 0, 'sub': 0, 'size': len(body), '_detail': ''}
    sys.setprofile(meter)
    try:
        msg = Message.unpack(typ, memoryview(body), neg)      # a memoryview, as Connection.reader_async hands it over
        force(msg, neg, worlds)
    except Notify as n:
        out.update(kind='notify', code=int(n.code), sub=int(n.subcode), _detail=str(n)[:100])
    except RecursionError:
        out.update(kind='recursion', _detail='RecursionError')
    except Exception as exc:  # noqa: BLE001 - the observation is precisely whether anything else escapes
        import traceback

        tb = traceback.extract_tb(exc.__traceback__)
        out.update(kind='exception', _detail=f'{type(exc).__name__}: {str(exc)[:80]} at {tb[-1].filename.split("/")[-1]}:{tb[-1].lineno} {tb[-1].name}')
    finally:
        sys.setprofile(None)
    out['calls'] = meter.calls
    out['stack'] = meter.max
    out['_hex'] = body[:60].hex()
    return out


def run(tier: str) -> int:
    ck = Check('C03', tier, 'model_checking')
    ck.cov['rule'] = (
        'cases = rows of the ExaRobust table enumerated by TLC (27 well-formed bases over the six message types, at four scales up to as many elements as a '
        '4096 / 65535 byte message holds, three sets of session parameters, damaged by: nothing, cuts at seven places, a byte forced to 0x00/0xFF at each of the '
        'first 48 offsets, appended junk, seeded random byte flips, seeded random bodies); each body goes through the real Message.unpack, every lazy part is forced '
        '(UPDATE parse, str(), json(), the JSON v6 and text v4 API encoders) under a profiler counting Python calls and stack depth; TLC (Judge_ExaRobust) '
        'evaluates Allowed: decoded or a NOTIFICATION with a defined code, no other exception, bounded stack, calls <= 6000 + 60 x size, valid => decoded'
    )
    ck.assumptions += ['bodies are handed to Message.unpack as Protocol.read_message does after the header checks (C06 covers framing, C08 the choice of refusal for UPDATE faults)',
                       'cost is counted in Python function calls and stack frames (deterministic), not in seconds']
    nseeds, cseeds = (3, 2) if tier == 'quick' else (300, 40)
    ncorpus = len(corpus())
    ncorpus = min(ncorpus, 60) if tier == 'quick' else ncorpus
    ck.notes.append(f'corpus: {ncorpus} of {len(corpus())} distinct messages from qa/encoding and qa/decoding')

    def ints(n):
        return '{' + ', '.join(str(i) for i in range(1, n + 1)) + '}'

    cfg = f'SPECIFICATION GenSpec\nCONSTANTS\n  Seeds = {ints(nseeds)}\n  CorpusSeeds = {ints(cseeds)}\n  NCorpus = {ncorpus}\nINVARIANT TableOK\nCHECK_DEADLOCK FALSE\n'
    res, states = tlc.dump_states('Gen_ExaRobust', '', 'c03gen', ['u', 'z'], cfg_text=cfg, workers=8)
    ck.tlc(res, f'Gen_ExaRobust: rows with {nseeds} seeds')
    if not res.ok:
        raise tlc.TLCError('Gen_ExaRobust: ' + res.out[-1500:])
    rows = sorted((s['u'] for s in states), key=lambda u: json.dumps(u, sort_keys=True))
    negs = {k: make_neg(k) for k in NEGS}
    worlds = [c13.World(6, 'json'), c13.World(4, 'text')]
    lines = []
    try:
        # warm every code path once so that one-off import / cache work is not charged to a row
        for u in rows[:: max(1, len(rows) // 200)]:
            execute(u, negs, worlds)
        for u in rows:
            out = execute(u, negs, worlds)
            out.update({'id': len(lines), 'mutname': u['mut']['m'], 'shape': u['shape'], '_u': u})
            lines.append(out)
            ck.count(u)
            if u['scale'] == 'fill4k' and u['mut']['m'] == 'none' and len(ck.cov['samples']) < 3:
                ck.sample({'row': u, 'size': out['size'], 'outcome': out['kind'], 'calls': out['calls'], 'stack': out['stack']})
    finally:
        for w in worlds:
            w.close()
    ck.notes.append('outcomes: ' + json.dumps({k: sum(1 for ln in lines if ln['kind'] == k) for k in ('decoded', 'notify', 'exception', 'recursion')}))
    ck.notes.append(f'max calls/byte over rows larger than 1000 bytes: {max((ln["calls"] / ln["size"] for ln in lines if ln["size"] > 1000), default=0):.1f}; max stack {max(ln["stack"] for ln in lines)}')
    bad, jres = updcheck.judge([{k: v for k, v in ln.items() if not k.startswith('_')} for ln in lines], 'Judge_ExaRobust', 'c03' + tier[0])
    ck.tlc(jres, f'Judge_ExaRobust: {len(lines)} rows')
    ck.cov['traces_validated_against_impl'] = len(lines)
    ck.cov['exhaustive'] = True
    for b in bad:
        ln = lines[b['id']]
        u = ln['_u']
        for clause in b['clauses']:
            where = ln['_detail'].split(' at ')[-1] if ln['kind'] == 'exception' else ''
            ck.violation({'clause': clause, 'shape': u['shape'], 'where': where, 'mut': u['mut']['m'] if ln['kind'] != 'exception' else ''},
                         f'{clause}: {u} -> {ln["kind"]} {ln["code"]}/{ln["sub"]} {ln["_detail"]} size={ln["size"]} calls={ln["calls"]} stack={ln["stack"]} body={ln["_hex"]}',
                         {'u': u, 'clause': clause})
    return ck.finish()


def replay_file(path: str) -> int:
    c = json.load(open(path))['case']
    u = c['u']
    negs = {u['neg']: make_neg(u['neg'])}
    worlds = [c13.World(6, 'json'), c13.World(4, 'text')]
    try:
        execute(u, negs, worlds)
        out = execute(u, negs, worlds)
    finally:
        for w in worlds:
            w.close()
    out.update({'id': 0, 'mutname': u['mut']['m'], 'shape': u['shape']})
    bad, _ = updcheck.judge([{k: v for k, v in out.items() if not k.startswith('_')}], 'Judge_ExaRobust', 'replay')
    print(u, out['kind'], out['code'], out['sub'], out['_detail'], 'size', out['size'], 'calls', out['calls'], 'stack', out['stack'])
    if any(c['clause'] in b['clauses'] for b in bad):
        print(f'VIOLATION property=C03 replay={path}')
        return 1
    print('replay: property held on this case')
    return 0
