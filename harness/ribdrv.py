"""Drives the real OutgoingRIB along a script of ExaRib actions and records, after every step, the projection of the
real state onto the specification's observable variables.  Python only executes and records: the log is judged by TLC
(spec/Trace_ExaRib.tla)."""

from __future__ import annotations

import os

os.environ.setdefault('exabgp_log_enable', 'false')

from exabgp.bgp.message import Message, Open  # noqa: E402
from exabgp.bgp.message.direction import Direction  # noqa: E402
from exabgp.bgp.message.open.asn import ASN  # noqa: E402
from exabgp.bgp.message.open.capability.capabilities import Capabilities  # noqa: E402
from exabgp.bgp.message.open.capability.negotiated import Negotiated  # noqa: E402
from exabgp.bgp.message.open.routerid import RouterID  # noqa: E402
from exabgp.bgp.message.open.version import Version  # noqa: E402
from exabgp.bgp.message.refresh import RouteRefresh  # noqa: E402
from exabgp.bgp.message.update.collection import RoutedNLRI, UpdateCollection  # noqa: E402
from exabgp.configuration.configuration import Configuration  # noqa: E402
from exabgp.protocol.family import AFI, SAFI  # noqa: E402
from exabgp.rib import RIB  # noqa: E402

from harness import wire  # noqa: E402

END = object()

KEYS = {
    'k1': ('v4u', '10.0.1.0/24'),
    'k2': ('v4u', '10.0.2.0/24'),
    'k3': ('v6u', '2001:db8:3::/48'),
    'k4': ('v4u', '10.0.1.0/24 path-information 0.0.0.2'),  # second path of k1's prefix (ADD-PATH)
    'k5': ('v6u', '2001:db8:5::/48'),
    'k6': ('v4u', '10.0.1.0/24 path-information 0.0.0.1'),  # with k4: two explicit ADD-PATH paths of one prefix
    'k7': ('v4l', '10.0.7.0/24'),  # labeled unicast: x and y differ in the label only (the label is payload, not identity)
}
ATTRS = {
    'x': {'v4u': 'next-hop 192.0.2.1 med 10', 'v6u': 'next-hop 2001:db8::1 med 10', 'v4l': 'next-hop 192.0.2.1 med 10 label [ 100 ]'},
    'y': {'v4u': 'next-hop 192.0.2.1 med 20 community [ 65000:1 ]', 'v6u': 'next-hop 2001:db8::1 med 20 community [ 65000:1 ]', 'v4l': 'next-hop 192.0.2.1 med 10 label [ 200 ]'},
    'z': {'v4u': 'next-hop 192.0.2.9 med 10', 'v6u': 'next-hop 2001:db8::9 med 10', 'v4l': 'next-hop 192.0.2.9 med 10 label [ 100 ]'},
}
FAMS = {'v4u': (AFI.ipv4, SAFI.unicast), 'v6u': (AFI.ipv6, SAFI.unicast), 'v4l': (AFI.ipv4, SAFI.nlri_mpls)}
FAMNAME = {(1, 1): 'v4u', (2, 1): 'v6u', (1, 4): 'v4l'}

CONF = """
neighbor 127.0.0.2 {
  router-id 1.2.3.4;
  local-address 127.0.0.1;
  local-as 65000;
  peer-as 65001;
  hold-time 9;
  family { ipv4 unicast; ipv6 unicast; }
  capability { add-path send/receive; route-refresh enable; }
}
"""
CONF_LABELED = CONF.replace('ipv4 unicast; ipv6 unicast;', 'ipv4 unicast; ipv4 nlri-mpls;')     # the session of the labeled key k7


def make_negotiated(neighbor):
    neg = Negotiated.make_negotiated(neighbor, Direction.OUT)
    o = Open.make_open(Version(4), neighbor.session.local_as, neighbor.hold_time, neighbor.session.router_id, Capabilities().new(neighbor, False))
    neg.sent(o)
    po = Open.make_open(Version(4), ASN(int(neighbor.session.peer_as)), neighbor.hold_time, RouterID('5.6.7.8'), Capabilities().new(neighbor, False))
    ro = Message.unpack(1, po.pack_message(neg)[19:], neg)
    neg.received(ro)
    return neg


class RibWorld:
    def __init__(self, conf_text: str = CONF, conf=None, neighbor=None, fresh_rib: bool = True) -> None:
        if conf is None:
            RIB._cache.clear()
            self.conf = Configuration([conf_text], text=True)
            if not self.conf.reload():
                raise RuntimeError('harness configuration refused: %s' % getattr(self.conf, 'error', ''))
            self.neighbor = list(self.conf.neighbors.values())[0]
        else:  # naming / concretisation tables for an existing neighbour (peer-level harness)
            self.conf = conf
            self.neighbor = neighbor
        self.rib = self.neighbor.rib.outgoing
        self.neg = make_negotiated(self.neighbor)
        self.addpath = {(1, 1): bool(self.neg.addpath.send(AFI.ipv4, SAFI.unicast)), (2, 1): bool(self.neg.addpath.send(AFI.ipv6, SAFI.unicast)), (1, 4): bool(self.neg.addpath.send(AFI.ipv4, SAFI.nlri_mpls))}
        self._routes: dict = {}
        self._keyof: dict = {}
        self._attrof: dict = {}
        negotiated = {(int(a), int(s)) for a, s in self.neighbor.families()}
        self.keys = [k for k, (fam, _) in KEYS.items() if (int(FAMS[fam][0]), int(FAMS[fam][1])) in negotiated]
        for k in self.keys:
            fam = KEYS[k][0]
            for a, per in ATTRS.items():
                r = self.route(k, a)
                dec = self._encode_one(r)
                assert len(dec['announce']) == 1, (k, a, dec)
                wk = dec['announce'][0]
                assert self._keyof.setdefault(wk, k) == k, 'key table not injective'
                sig = (fam, wire.attr_signature(dec))
                assert self._attrof.setdefault(sig, a) == a, 'attr table not injective'
        assert len(self._keyof) == len(self.keys)
        self.gen = None
        self._names = {}
        if fresh_rib:
            self.reset_world()

    def reset_world(self) -> None:
        """Fresh OutgoingRIB (public constructor) for the next script; the neighbour and tables are reused."""
        from exabgp.rib.outgoing import OutgoingRIB

        self.neighbor.rib.outgoing = OutgoingRIB(True, set(self.neighbor.families()))
        self.rib = self.neighbor.rib.outgoing
        self.gen = None
        self.held = None
        self.live = False
        self.up = False
        self.incl_wd = False
        self.peer = {}
        self._names = {}

    # -- concretisation -----------------------------------------------------------------
    def route(self, k: str, a: str, extra: str = ''):
        key = (k, a, extra)
        if extra or key not in self._routes:  # watchdog()/withdraw() pop their internal attributes: never reuse such a route
            fam, ktext = KEYS[k]
            prefix, _, rest = ktext.partition(' ')
            text = f'route {prefix} {ATTRS[a][fam]} {rest} {extra}'.strip()
            parsed = self.conf.parse_route_text(text)
            if not parsed:
                raise RuntimeError('harness route text refused: ' + text)
            self._routes[key] = self.neighbor.resolve_self(parsed[0])
        return self._routes[key]

    def _encode_one(self, route) -> dict:
        msgs = list(UpdateCollection([RoutedNLRI(route.nlri, route.nexthop)], [], route.attributes).messages(self.neg, True))
        assert len(msgs) == 1
        return wire.decode_update(msgs[0][19:], self.addpath)

    # -- projection -----------------------------------------------------------------------
    def _name_route(self, route) -> tuple:
        memo = (route.index(), route.attributes.index(), str(route.nexthop), bytes(route.nlri.pack_nlri(self.neg)))   # the label is not in the index
        if memo not in self._names:
            self._names[memo] = self._name_route_slow(route)
        return self._names[memo]

    def _name_route_slow(self, route) -> tuple:
        dec = self._encode_one(route)
        wk = dec['announce'][0]
        k = self._keyof.get(wk, '?' + repr(wk))
        fam = KEYS[k][0] if k in KEYS else '?'
        a = self._attrof.get((fam, wire.attr_signature(dec)), '?attr')
        return k, a

    def _name_nlri(self, nlri) -> str:
        msgs = list(UpdateCollection([], [nlri], self.route('k1', 'x').attributes).messages(self.neg, True))
        dec = wire.decode_update(msgs[0][19:], self.addpath)
        wk = dec['withdraw'][0]
        return self._keyof.get(wk, '?' + repr(wk))

    def cache_table(self) -> dict:
        cache = {k: 'none' for k in self.keys}
        for r in self.neighbor.rib.outgoing.cached_routes():
            k, a = self._name_route(r)
            cache[k] = a
        return cache

    def abstract_update(self, body: bytes) -> dict:
        """Abstract one UPDATE body received by a remote speaker: {'ann': [[k, a]], 'wd': [k], 'eor': fam|'none'}."""
        dec = wire.decode_update(body, self.addpath)
        ann = []
        for wk in dec['announce']:
            k = self._keyof.get(wk, '?' + repr(wk))
            fam = KEYS[k][0] if k in KEYS else '?'
            ann.append([k, self._attrof.get((fam, wire.attr_signature(dec)), '?attr')])
        wd = [self._keyof.get(wk, '?' + repr(wk)) for wk in dec['withdraw']]
        return {'ann': ann, 'wd': wd, 'eor': FAMNAME.get(dec['eor'], '?') if dec['eor'] else 'none'}

    def project(self) -> dict:
        cache = self.cache_table()
        queued = {k: 'none' for k in self.keys}
        for r in self.rib.queued_routes():
            k, a = self._name_route(r)
            queued[k] = a
        peer = {k: self.peer.get(k, 'none') for k in self.keys}
        return {'cache': cache, 'queued': queued, 'pending': bool(self.rib.pending()), 'live': self.live, 'peer': peer, 'up': self.up}

    def _abstract(self, item) -> dict:
        if isinstance(item, RouteRefresh):
            kind = {RouteRefresh.start: 'rrs', RouteRefresh.end: 'rre'}.get(item.reserved, 'rr')
            return {'kind': kind, 'fam': FAMNAME.get((int(item.afi), int(item.safi)), '?'), 'ent': []}
        ent = []
        if item.announces:
            for rn in item.announces:
                from exabgp.rib.route import Route

                k, a = self._name_route(Route(rn.nlri, item.attributes, nexthop=rn.nexthop))
                ent.append([k, a])
            return {'kind': 'ann', 'fam': KEYS[ent[0][0]][0] if ent[0][0] in KEYS else '?', 'ent': ent}
        for nlri in item.withdraws:
            ent.append([self._name_nlri(nlri), 'none'])
        return {'kind': 'wd', 'fam': KEYS[ent[0][0]][0] if ent and ent[0][0] in KEYS else '?', 'ent': ent}

    def _wire(self, item) -> list:
        """Encode the yielded item as the peer loop would and abstract each wire message."""
        out = []
        for raw in item.messages(self.neg, self.incl_wd):
            for typ, body in wire.split_messages(raw):
                if typ == 5:
                    out.append({'t': 'rr', 'sub': body[2], 'fam': FAMNAME.get((body[0] * 256 + body[1], body[3]), '?')})
                    continue
                dec = wire.decode_update(body, self.addpath)
                ann = []
                for wk in dec['announce']:
                    k = self._keyof.get(wk, '?' + repr(wk))
                    fam = KEYS[k][0] if k in KEYS else '?'
                    ann.append([k, self._attrof.get((fam, wire.attr_signature(dec)), '?attr')])
                wd = [self._keyof.get(wk, '?' + repr(wk)) for wk in dec['withdraw']]
                eor = FAMNAME.get(dec['eor'], '?') if dec['eor'] else 'none'
                out.append({'t': 'upd', 'ann': ann, 'wd': wd, 'eor': eor})
                for k in wd:
                    self.peer[k] = 'none'
                for k, a in ann:
                    self.peer[k] = a
        return out

    # -- actions --------------------------------------------------------------------------
    def step(self, act: dict) -> dict:
        name = act['name']
        ev = dict(act)
        rib = self.rib
        if name == 'Announce':
            rib.add_to_rib(self.route(act['k'], act['a']))
        elif name == 'Withdraw':
            rib.del_from_rib(self.route(act['k'], 'x'))
        elif name == 'Resend':
            fams = sorted(act['fams'])
            if len(fams) == len(FAMS):
                rib.resend(bool(act['enhanced']), None)
            else:
                for f in fams:
                    rib.resend(bool(act['enhanced']), FAMS[f])
        elif name == 'WithdrawAll':
            rib.withdraw()
        elif name == 'WatchdogAdd':
            extra = 'watchdog ' + act['w'] + (' withdraw' if act['withdrawn'] else '')
            rib.add_to_rib_watchdog(self.route(act['k'], act['a'], extra))
        elif name == 'WatchdogAnnounce':
            rib.announce_watchdog(act['w'])
        elif name == 'WatchdogWithdraw':
            rib.withdraw_watchdog(act['w'])
        elif name == 'StartFlush':
            # Peer._send_route_updates: the generator is created and advanced at once, so the snapshot is taken here;
            # the first item is held until the script lets it reach the wire.
            self.gen = rib.updates(self.neighbor.group_updates)
            self.held = next(self.gen, END)
            self.live = True
        elif name in ('SendOne', 'FlushDone', 'Advance'):
            # one __anext__ of Protocol.new_update_generator: resume updates() lazily, encode, write
            if self.held is not None:
                item, self.held = self.held, None
            else:
                item = next(self.gen, END)
            if item is END:
                ev['name'] = 'FlushDone'
                self.gen = None
                self.live = False
                self.incl_wd = True
                rib.fire_flush_callbacks()
            else:
                ev['name'] = 'SendOne'
                ev['msg'] = self._abstract(item)
                ev['iw'] = self.incl_wd
                ev['wire'] = self._wire(item)
        elif name == 'SendEOR':
            pass
        elif name == 'SessionDown':
            self.gen = None
            self.held = None
            self.live = False
            self.up = False
            self.peer = {}
            self.neighbor.reset_rib()
        elif name == 'SessionUp':
            self.up = True
            self.incl_wd = False
            previous = self.neighbor.previous.routes if self.neighbor.previous else []
            rib.replace_restart(previous, self.neighbor.routes)
            self.neighbor.previous = None
        else:
            raise ValueError(name)
        ev['obs'] = self.project()
        return ev

    def enabled(self, name: str) -> bool:
        """Guards that depend only on harness-visible state (mirrors of the spec guards)."""
        if name == 'StartFlush':
            return self.up and not self.live and self.rib.pending()
        if name in ('SendOne', 'FlushDone', 'Advance'):
            return self.up and self.live
        if name == 'SendEOR':
            return self.up and not self.live
        if name == 'SessionDown':
            return self.up
        if name == 'SessionUp':
            return not self.up
        return True

    def run(self, script: list) -> list:
        return [self.step(a) for a in script]
