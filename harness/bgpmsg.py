"""Hand-written BGP message builders for the scripted remote speaker (from RFC 4271/4760/6793/7911/2918/7313;
never imports ExaBGP)."""

from __future__ import annotations

import ipaddress
import struct

MARKER = b'\xff' * 16
OPEN, UPDATE, NOTIFICATION, KEEPALIVE, REFRESH = 1, 2, 3, 4, 5
NAMES = {1: 'OPEN', 2: 'UPDATE', 3: 'NOTIFICATION', 4: 'KEEPALIVE', 5: 'REFRESH', 6: 'OPERATIONAL'}


def msg(typ: int, body: bytes = b'', marker: bytes = MARKER, length: int | None = None) -> bytes:
    ln = 19 + len(body) if length is None else length
    return marker + struct.pack('!HB', ln, typ) + body


def cap(code: int, value: bytes = b'') -> bytes:
    return struct.pack('!BB', code, len(value)) + value


def cap_mp(afi: int, safi: int) -> bytes:
    return cap(1, struct.pack('!HBB', afi, 0, safi))


def cap_asn4(asn: int) -> bytes:
    return cap(65, struct.pack('!I', asn))


def cap_rr() -> bytes:
    return cap(2)


def cap_err() -> bytes:
    return cap(70)


def cap_extmsg() -> bytes:
    return cap(6)


def cap_addpath(entries) -> bytes:
    return cap(69, b''.join(struct.pack('!HBB', a, s, m) for a, s, m in entries))


def open_msg(asn: int, hold: int, rid: str, caps: list[bytes], version: int = 4, one_param_per_cap: bool = False) -> bytes:
    two = asn if asn < 65536 else 23456
    if one_param_per_cap:
        params = b''.join(struct.pack('!BB', 2, len(c)) + c for c in caps)
    else:
        allc = b''.join(caps)
        params = struct.pack('!BB', 2, len(allc)) + allc if allc else b''
    body = struct.pack('!BHH', version, two, hold) + ipaddress.IPv4Address(rid).packed + struct.pack('!B', len(params)) + params
    return msg(OPEN, body)


def cap_hostname(host: str, domain: str) -> bytes:
    """FQDN capability (code 73): length-prefixed host and domain names, UTF-8"""
    h, d = host.encode('utf-8'), domain.encode('utf-8')
    return cap(73, bytes([len(h)]) + h + bytes([len(d)]) + d)


def default_caps(asn: int, fams=((1, 1), (2, 1)), addpath=((1, 1, 3), (2, 1, 3)), rr=True, err=False, extmsg=True, hostname=None) -> list[bytes]:
    caps = [cap_mp(a, s) for a, s in fams]
    if hostname:
        caps.append(cap_hostname(*hostname))
    caps.append(cap_asn4(asn))
    if rr:
        caps.append(cap_rr())
    if err:
        caps.append(cap_err())
    if extmsg:
        caps.append(cap_extmsg())
    if addpath:
        caps.append(cap_addpath(addpath))
    return caps


def keepalive() -> bytes:
    return msg(KEEPALIVE)


def notification(code: int, sub: int, data: bytes = b'') -> bytes:
    return msg(NOTIFICATION, struct.pack('!BB', code, sub) + data)


def refresh(afi: int, safi: int, sub: int = 0) -> bytes:
    return msg(REFRESH, struct.pack('!HBB', afi, sub, safi))


def prefix(text: str, pathid: int | None = None) -> bytes:
    net = ipaddress.ip_network(text)
    n = (net.prefixlen + 7) // 8
    out = struct.pack('!B', net.prefixlen) + net.network_address.packed[:n]
    if pathid is not None:
        out = struct.pack('!I', pathid) + out
    return out


def attr(flags: int, code: int, value: bytes) -> bytes:
    if len(value) > 255 or flags & 0x10:
        return struct.pack('!BBH', flags | 0x10, code, len(value)) + value
    return struct.pack('!BBB', flags, code, len(value)) + value


def base_attrs(nexthop: str = '192.0.2.77', aspath: tuple = (65001,), asn4: bool = True, med: int | None = None, localpref: int | None = None) -> bytes:
    fmt = '!I' if asn4 else '!H'
    seg = (struct.pack('!BB', 2, len(aspath)) + b''.join(struct.pack(fmt, a) for a in aspath)) if aspath else b''
    out = attr(0x40, 1, b'\x00') + attr(0x40, 2, seg)
    if nexthop:
        out += attr(0x40, 3, ipaddress.IPv4Address(nexthop).packed)
    if med is not None:
        out += attr(0x80, 4, struct.pack('!I', med))
    if localpref is not None:
        out += attr(0x40, 5, struct.pack('!I', localpref))
    return out


def update(withdrawn: bytes = b'', attrs: bytes = b'', nlri: bytes = b'') -> bytes:
    return msg(UPDATE, struct.pack('!H', len(withdrawn)) + withdrawn + struct.pack('!H', len(attrs)) + attrs + nlri)


def eor(afi: int = 1, safi: int = 1) -> bytes:
    if (afi, safi) == (1, 1):
        return update()
    return update(attrs=attr(0x80, 15, struct.pack('!HB', afi, safi)))


def mp_reach(afi: int, safi: int, nexthop: bytes, nlri: bytes) -> bytes:
    return attr(0x80, 14, struct.pack('!HBB', afi, safi, len(nexthop)) + nexthop + b'\x00' + nlri)


def mp_unreach(afi: int, safi: int, nlri: bytes) -> bytes:
    return attr(0x80, 15, struct.pack('!HB', afi, safi) + nlri)
