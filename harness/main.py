"""CLI: ./check <Cnn> --tier quick|thorough [--replay FILE] | --setup | --selftest"""

from __future__ import annotations

import argparse
import importlib
import os
import shutil
import sys
import traceback

from harness import tlc
from harness.common import machinery_failure

CHECKS = {
    'C01': 'harness.c01',
    'C02': 'harness.c02',
    'C03': 'harness.c03',
    'C04': 'harness.c04',
    'C11': 'harness.c11',
    'C05': 'harness.c05',
    'C06': 'harness.c06',
    'C07': 'harness.c07',
    'C08': 'harness.c08',
    'C09': 'harness.c09',
    'C10': 'harness.c10',
    'C12': 'harness.c12',
    'C13': 'harness.c13',
    'C14': 'harness.c14',
    'C15': 'harness.c15',
    'C16': 'harness.c16',
    'C17': 'harness.c17',
    'C18': 'harness.c18',
    'C19': 'harness.c19',
    'C20': 'harness.c20',
}


def setup() -> int:
    bad = []
    for f in sorted(os.listdir(tlc.SPEC)):
        if f.endswith('.tla'):
            if not tlc.sany(f[:-4]):
                bad.append(f)
    if bad:
        print('SANY failed for', bad)
        return 2
    print('setup ok: all specification modules parse')
    return 0


def main() -> int:
    ap = argparse.ArgumentParser()
    ap.add_argument('prop', nargs='?')
    ap.add_argument('--tier', default=os.environ.get('VERIF_TIER', 'quick'), choices=['quick', 'thorough'])
    ap.add_argument('--replay')
    ap.add_argument('--setup', action='store_true')
    ap.add_argument('--selftest', action='store_true')
    args = ap.parse_args()
    os.makedirs(tlc.WORK, exist_ok=True)
    if args.setup:
        return setup()
    if args.selftest:
        from harness import selftest

        return selftest.main(args.prop)
    if args.prop not in CHECKS:
        print('unknown property', args.prop)
        return 2
    mod = importlib.import_module(CHECKS[args.prop])
    try:
        if args.replay:
            return (getattr(mod, 'replay_file', None) or mod.replay)(args.replay)
        return mod.run(args.tier)
    except tlc.TLCError as exc:
        return machinery_failure(args.prop, str(exc))
    except Exception:
        traceback.print_exc()
        return machinery_failure(args.prop, 'harness exception')
    finally:
        for d in os.listdir(tlc.WORK):
            if d.startswith(args.prop.lower() + '-') or True:
                pass


if __name__ == '__main__':
    sys.exit(main())
