"""C14 - API commands: same order, one acknowledgement each, no side effects on error."""

from __future__ import annotations

import json
import os
import random

from harness import tlc
from harness.common import Check, seed

A = {'a11': '127.0.0.11', 'a12': '127.0.0.12', 'a110': '127.0.0.110'}
RID = {'r1': '1.1.1.1', 'r2': '2.2.2.2'}
ROUTE = {'p1': '10.1.0.0/24', 'p2': '10.2.0.0/24', 'p3': '10.3.0.0/24', 'p4': '10.4.0.0/24', 'p5': '10.5.0.0/24', 'p6': '10.6.0.0/24', 'p7': '10.7.0.0/24', 'p8': '10.8.0.0/24', 'p9': '10.9.0.0/24', 'p10': '10.10.0.0/24', 'p11': '10.11.0.0/24'}

# command id -> text, per API version (v6: `peer <selector> ...`; v4: `neighbor <selector> ...`)
V6 = {
    'all': 'peer * announce route 10.1.0.0/24 next-hop 1.2.3.4',
    'one': 'peer 127.0.0.11 announce route 10.2.0.0/24 next-hop 1.2.3.4',
    'oneas': 'peer 127.0.0.11 peer-as 65001 announce route 10.3.0.0/24 next-hop 1.2.3.4',
    'none': 'peer 127.0.0.11 peer-as 65002 announce route 10.4.0.0/24 next-hop 1.2.3.4',
    'none2': 'peer 127.0.0.12 router-id 2.2.2.2 announce route 10.4.0.0/24 next-hop 1.2.3.4',
    'two': 'peer [127.0.0.11, 127.0.0.12 peer-as 65002] announce route 10.5.0.0/24 next-hop 1.2.3.4',
    'third': 'peer 127.0.0.110 router-id 2.2.2.2 announce route 10.6.0.0/24 next-hop 1.2.3.4',
    'staras': 'peer [* peer-as 65002] announce route 10.11.0.0/24 next-hop 1.2.3.4',
    'wdall': 'peer * withdraw route 10.1.0.0/24 next-hop 1.2.3.4',
    'wdone': 'peer 127.0.0.11 withdraw route 10.2.0.0/24 next-hop 1.2.3.4',
    'bogus': 'bogus command that does not exist',
    'badrt': 'peer * announce route 10.7.0.0/24 next-hop',
    'badval': 'peer * announce route 10.8.0.0/24 next-hop 1.2.3.4 med 4294967296',
    'halfbad': 'peer * announce route 10.9.0.0/24 next-hop 1.2.3.4 ; route 10.10.0.0/24',
}
V4 = {
    'all': 'announce route 10.1.0.0/24 next-hop 1.2.3.4',
    'one': 'neighbor 127.0.0.11 announce route 10.2.0.0/24 next-hop 1.2.3.4',
    'oneas': 'neighbor 127.0.0.11 peer-as 65001 announce route 10.3.0.0/24 next-hop 1.2.3.4',
    'none': 'neighbor 127.0.0.11 peer-as 65002 announce route 10.4.0.0/24 next-hop 1.2.3.4',
    'none2': 'neighbor 127.0.0.12 router-id 2.2.2.2 announce route 10.4.0.0/24 next-hop 1.2.3.4',
    'two': 'neighbor 127.0.0.11, neighbor 127.0.0.12 peer-as 65002 announce route 10.5.0.0/24 next-hop 1.2.3.4',
    'third': 'neighbor 127.0.0.110 router-id 2.2.2.2 announce route 10.6.0.0/24 next-hop 1.2.3.4',
    'staras': 'neighbor * peer-as 65002 announce route 10.11.0.0/24 next-hop 1.2.3.4',
    'wdall': 'withdraw route 10.1.0.0/24 next-hop 1.2.3.4',
    'wdone': 'neighbor 127.0.0.11 withdraw route 10.2.0.0/24 next-hop 1.2.3.4',
    'bogus': 'bogus command that does not exist',
    'badrt': 'announce route 10.7.0.0/24 next-hop',
    'badval': 'announce route 10.8.0.0/24 next-hop 1.2.3.4 med 4294967296',
    'halfbad': 'announce route 10.9.0.0/24 next-hop 1.2.3.4 ; route 10.10.0.0/24',
}
PFX2P = {v: k for k, v in ROUTE.items()}


def chars(text: str) -> list[bytes]:
    raw = text.encode()
    h = len(raw) // 2
    return [raw[:h], raw[h:], b'\n']


def replay(world, script, hist, texts):
    """Execute a TLC schedule: ('r', n) = the helper's next n characters reach the pipe and are read; ('c', 0) = one cycle."""
    stream = [c for cid in script for c in chars(texts[cid])]
    pos = 0
    for kind, n in hist:
        if kind == 'r':
            world.write(b''.join(stream[pos:pos + n]))
            pos += n
            import select

            if select.select([world.proc.stdout.fileno()], [], [], 0)[0]:
                world.reactor.processes._async_reader_callback('svc')
        else:
            world.cycle()
    return pos


def reset(world) -> None:
    for nb in world.conf.neighbors.values():
        nb.rib.outgoing.clear()
    world.executed.clear()
    world.replies = b''
    world.reactor.processes._buffer.clear()
    world.reactor.processes._command_queue.clear()


def observe(world, script, texts) -> dict:
    ribs = {}
    for short, lst in world.ribs().items():
        ribs[short] = sorted(PFX2P.get(x.split('|')[0], x) for x in lst)
    lines = [ln for ln in world.replies.decode('ascii', 'replace').split('\n') if ln]
    terminal = [ln for ln in lines if ln in ('done', 'error')]
    other = [ln for ln in lines if ln not in ('done', 'error')]
    def canon(t):
        return ''.join(t.split()).replace(',', '')

    wanted = [canon(texts[c]) for c in script]
    ex, nxt = [], 0
    for cmd in world.executed:
        # the k-th command executed must be the k-th line written
        if nxt < len(wanted) and canon(cmd) == wanted[nxt]:
            ex.append(nxt + 1)
        else:
            ex.append(wanted.index(canon(cmd)) + 1 if canon(cmd) in wanted else 0)
        nxt += 1
    return {'executed': ex, 'executed_text_ok': all(canon(c) in wanted for c in world.executed), 'replies': terminal, 'other_lines': len(other), 'ribs': ribs}


def run(tier: str) -> int:
    from harness.apidrv import ApiWorld

    ck = Check('C14', tier, 'model_checking')
    ck.cov['rule'] = (
        'cases = (script of <= MaxCmds command lines over 12 command kinds, schedule of pipe reads of 1..9 abstract characters and reactor '
        'cycles) = the terminal states of ExaApi after TLC checked SameOrder, OneTerminalReplyEach, NothingInvented and RibsAreTheFold on '
        'every state; each is replayed on the real Processes / API / ASYNC / Configuration with a fake helper process (pipes) for API v6 '
        'and v4 syntax, and the executed commands, terminal replies and every neighbour RIB are compared with the specification state; '
        'distinct = distinct (script, schedule); non-trivial = at least two commands or a read that cuts a line'
    )
    ck.assumptions += ['three neighbours differing in one selector term each (one address is a textual prefix of another); acknowledgements enabled; one helper process']
    rnd = random.Random(seed())
    cfg = f'SPECIFICATION Spec\nCONSTANTS\n  MaxCmds = 2\n  MaxSteps = {6 if tier == "quick" else 7}\nINVARIANT SameOrder\nINVARIANT OneTerminalReplyEach\nINVARIANT NothingInvented\nINVARIANT RibsAreTheFold\nCHECK_DEADLOCK FALSE\n'
    res, states = tlc.dump_states('ExaApi', '', 'c14', ['Script', 'hist', 'pos', 'queue', 'executed', 'replies', 'ribs'], cfg_text=cfg)
    ck.tlc(res, 'ExaApi: all scripts of <= 2 commands x all schedules; invariants SameOrder, OneTerminalReplyEach, NothingInvented, RibsAreTheFold')
    if not res.ok:
        raise tlc.TLCError('ExaApi: ' + res.out[-1500:])
    final = [s for s in states if s['pos'] == 3 * len(s['Script']) and not s['queue'] and len(s['executed']) == len(s['Script'])]
    limit = 1200 if tier == 'quick' else 20000
    ck.cov['exhaustive'] = len(final) <= limit
    if len(final) > limit:
        # keep every script at least once, then sample
        by = {}
        for s in final:
            by.setdefault(tuple(s['Script']), []).append(s)
        keep = [rnd.choice(v) for v in by.values()]
        rest = [s for s in final if s not in keep]
        final = keep + rnd.sample(rest, max(0, limit - len(keep)))
    for version, texts in ((6, V6), (4, V4)):
        world = ApiWorld(api_version=version, ack=True)
        try:
            for i, st in enumerate(final):
                reset(world)
                script = st['Script']
                replay(world, script, [tuple(h) for h in st['hist']], texts)
                for _ in range(3):
                    world.cycle()
                obs = observe(world, script, texts)
                want = {'executed': st['executed'], 'replies': st['replies'], 'ribs': {n: sorted(v['__set__']) for n, v in st['ribs'].items()}}
                case = {'api': version, 'script': script, 'schedule': st['hist']}
                ck.count(case, nontrivial=len(script) >= 2 or any(h[0] == 'r' and h[1] % 3 for h in st['hist']))
                if i in (3, len(final) // 2) and version == 6:
                    ck.sample({**case, 'lines': [texts[c] for c in script], 'observed': obs})
                clauses = []
                if obs['executed'] != want['executed'] or not obs['executed_text_ok']:
                    clauses.append('C14-commands-not-executed-in-the-order-written')
                if obs['replies'] != want['replies']:
                    clauses.append('C14-not-exactly-one-terminal-reply-per-command-in-order')
                if obs['ribs'] != want['ribs']:
                    bad_err = any(want['replies'][k] == 'error' for k in range(len(script)))
                    clauses.append('C14-selector-changed-a-neighbour-it-does-not-match' if not bad_err or obs['replies'] == want['replies'] else 'C14-failed-command-changed-a-rib')
                for clause in clauses:
                    ck.violation({'clause': clause, 'api': version, 'script': script}, f'{clause}: API v{version} lines {[texts[c] for c in script]} schedule {st["hist"]}: observed {obs}, specification {want}',
                                 {**case, 'obs': obs, 'want': want, 'clause': clause})
        finally:
            world.close()
    ck.cov['traces_validated_against_impl'] = 2 * len(final)
    return ck.finish()


def replay_file(path: str) -> int:
    from harness.apidrv import ApiWorld

    c = json.load(open(path))['case']
    texts = V6 if c['api'] == 6 else V4
    world = ApiWorld(api_version=c['api'], ack=True)
    replay(world, c['script'], [tuple(h) for h in c['schedule']], texts)
    for _ in range(3):
        world.cycle()
    obs = observe(world, c['script'], texts)
    world.close()
    print('observed', obs)
    print('expected', c['want'])
    if obs['executed'] != c['want']['executed'] or obs['replies'] != c['want']['replies'] or obs['ribs'] != c['want']['ribs']:
        print(f'VIOLATION property=C14 replay={path}')
        return 1
    print('replay: property held on this case')
    return 0
