"""C15 - every family and attribute survives an encode/decode round trip; the identity contract of routes.

Three tables, every line judged by TLC (Judge_ExaCodec over spec/ExaCodec.tla):
  nlri : rows enumerated by TLC (Gen_ExaCodec) with the RFC 8277 / 4364 / 7911 encoding computed in TLA+ -- route text -> real
         parser -> pack_nlri() must be those bytes; those bytes -> real decoder -> equal object (==, hash, index) -> same bytes.
  pair : pairs of rows one field apart -- equal index iff same family, path identifier, prefix and route distinguisher.
  trip : every NLRI and attribute object decoded from ExaBGP's own message corpus (EVPN, FlowSpec, BGP-LS, SR policy, VPLS,
         MUP, MVPN, RTC, labels, VPN ...) and every attribute form of the text grammar: pack(decode(b)) = b, idempotence,
         decode(pack(x)) == x with equal hash / index, deterministic renderings.
"""

from __future__ import annotations

import json
import os
import random

os.environ.setdefault('exabgp_log_enable', 'false')

from exabgp.bgp.message import Action, Message  # noqa: E402
from exabgp.bgp.message.direction import Direction  # noqa: E402
from exabgp.bgp.message.open import Open  # noqa: E402
from exabgp.bgp.message.open.capability.capabilities import Capabilities  # noqa: E402
from exabgp.bgp.message.open.capability.negotiated import Negotiated  # noqa: E402
from exabgp.bgp.message.open.version import Version  # noqa: E402
from exabgp.bgp.message.update.attribute.collection import AttributeCollection  # noqa: E402
from exabgp.bgp.message.update.nlri.nlri import NLRI  # noqa: E402
from exabgp.configuration.configuration import Configuration  # noqa: E402
from exabgp.rib import RIB  # noqa: E402

from harness import bgpmsg, updcheck  # noqa: E402
from harness.common import Check, seed  # noqa: E402

FAMS = 'ipv4 unicast; ipv6 unicast; ipv4 nlri-mpls; ipv6 nlri-mpls; ipv4 mpls-vpn; ipv6 mpls-vpn;'
PEER = ((1, 1), (2, 1), (1, 4), (2, 4), (1, 128), (2, 128))
BASE = {'fam': 'v4u', 'pfx': 'mid', 'labels': 'none', 'rd': 'none', 'pid': 'none'}
PFX4 = {'def': '0.0.0.0/0', 'short': '10.0.0.0/8', 'mid': '10.0.1.0/24', 'odd': '10.0.1.128/25', 'host': '10.0.1.7/32'}
PFX6 = {'def': '::/0', 'short': '2001::/16', 'mid': '2001:db8:1::/48', 'odd': '2001:db8:1:80::/57', 'host': '2001:db8:1::7/128'}
LABELS = {'one': '[ 100 ]', 'two': '[ 100 200 ]', 'three': '[ 100 200 300 ]', 'max': '[ 1048575 ]', 'zero': '[ 0 ]'}
RDS = {'t0': '65000:1', 't1': '1.2.3.4:5', 't2': '4200000000:5'}
PIDS = {'zero': '0', 'seven': '7', 'max': '4294967295'}
FAM = {'v4u': (1, 1), 'v6u': (2, 1), 'v4l': (1, 4), 'v6l': (2, 4), 'v4v': (1, 128), 'v6v': (2, 128)}


def diff(u):
    return {k: v for k, v in u.items() if BASE.get(k) != v}


class Session:
    """a session negotiated from two real OPENs, with or without ADD-PATH for the six families"""

    def __init__(self, addpath: bool) -> None:
        RIB._cache.clear()
        text = f"""neighbor 127.0.0.2 {{
  router-id 1.2.3.4; local-address 127.0.0.1; local-as 65000; peer-as 65001; hold-time 90;
  family {{ {FAMS} }}
  capability {{ route-refresh enable; add-path {'send/receive' if addpath else 'disable'}; extended-message enable; }}
}}
"""
        self.conf = Configuration([text], text=True)
        if not self.conf.reload():
            raise RuntimeError('harness configuration refused: %s' % self.conf.error)
        n = self.neighbor = list(self.conf.neighbors.values())[0]
        self.neg = Negotiated.make_negotiated(n, Direction.OUT)
        self.neg.sent(Open.make_open(Version(4), n.session.local_as, n.hold_time, n.session.router_id, Capabilities().new(n, False)))
        caps = [bgpmsg.cap_mp(a, s) for a, s in PEER] + [bgpmsg.cap_rr(), bgpmsg.cap_asn4(65001), bgpmsg.cap_extmsg()]
        if addpath:
            caps.append(bgpmsg.cap_addpath([(a, s, 3) for a, s in PEER]))
        raw = bgpmsg.open_msg(65001, 90, '5.6.7.8', caps, one_param_per_cap=True)
        self.neg.received(Message.unpack(1, memoryview(raw)[19:], self.neg))
        self.addpath = addpath


def route_text(r: dict) -> str:
    v6 = r['fam'].startswith('v6')
    t = ['route', (PFX6 if v6 else PFX4)[r['pfx']], 'next-hop', '2001:db8::1' if v6 else '192.0.2.1']
    if r['pid'] != 'none':
        t += ['path-information', PIDS[r['pid']]]
    if r['rd'] != 'none':
        t += ['rd', RDS[r['rd']]]
    if r['labels'] != 'none':
        t += ['label', LABELS[r['labels']]]
    return ' '.join(t)


def build(sessions, r: dict):
    sess = sessions[r['pid'] != 'none']
    parsed = sess.conf.parse_route_text(route_text(r))
    if not parsed:
        raise ValueError('refused: ' + str(sess.conf.error)[:120])
    return sess, parsed[0].nlri


def render(x) -> str:
    out = []
    for f in ('json', '__str__', 'extensive'):
        fn = getattr(x, f, None)
        if fn is None:
            out.append('n/a')
            continue
        try:
            out.append(str(fn()))
        except (NotImplementedError, TypeError):
            out.append('n/a')
    return '|'.join(out)


def index_of(x):
    ix = x.index() if hasattr(x, 'index') and callable(x.index) else None
    return bytes(ix) if isinstance(ix, (bytes, bytearray, memoryview)) else ix


def nlri_line(sessions, r: dict, ref: bytes) -> dict:
    out = {'kind': 'nlri', 'r': r, 'r2': r, 'error': '', 'packed': [], 'redecOk': False, 'redec': [], 'eq': False, 'hashEq': False, 'idxEq': False, 'renderSame': False, 'fam': [0, 0]}
    try:
        sess, n = build(sessions, r)
        out['packed'] = list(bytes(n.pack_nlri(sess.neg)))
        fam = n.family().afi_safi()
        out['fam'] = [int(fam[0]), int(fam[1])]
    except Exception as exc:  # noqa: BLE001
        out['error'] = type(exc).__name__ + ': ' + str(exc)[:140]
        return out
    afi, safi = FAM[r['fam']]
    try:
        d1, left1 = NLRI.unpack_nlri(afi, safi, memoryview(ref), Action.ANNOUNCE, sess.addpath, sess.neg)
        d2, _ = NLRI.unpack_nlri(afi, safi, memoryview(bytes(ref)), Action.ANNOUNCE, sess.addpath, sess.neg)
        if d1 is NLRI.INVALID or d1 is None or len(left1):
            return out
        out['redecOk'] = True
        out['redec'] = list(bytes(d1.pack_nlri(sess.neg)))
        out['eq'] = bool(d1 == n) and bool(n == d1)
        out['hashEq'] = hash(d1) == hash(n)
        out['idxEq'] = index_of(d1) == index_of(n)
        out['renderSame'] = render(d1) == render(d2)
    except Exception as exc:  # noqa: BLE001
        out['error'] = 'decoding the RFC bytes: ' + type(exc).__name__ + ': ' + str(exc)[:120]
    return out


def pair_line(sessions, r: dict, r2: dict) -> dict:
    out = {'kind': 'pair', 'r': r, 'r2': r2, 'error': '', 'idxEq': False, 'eq': False, 'hashEq': False}
    try:
        _, a = build(sessions, r)
        _, b = build(sessions, r2)
        out['idxEq'] = index_of(a) == index_of(b)
        out['eq'] = bool(a == b)
        out['hashEq'] = hash(a) == hash(b)
    except Exception as exc:  # noqa: BLE001
        out['error'] = type(exc).__name__ + ': ' + str(exc)[:140]
    return out


# ------------------------------------------------------------------------------------------------------------
# round trips without a reference encoding


def trip_nlri(n, neg, addpath, canonical: bool, inb: bytes | None = None) -> dict:
    out = {'kind': 'trip', 'what': 'nlri ' + type(n).__name__, 'canonical': canonical, 'error': '', 'inb': [], 'out': [], 'out2': [], 'eq': False, 'hashEq': False, 'idxEq': False, 'renderSame': False}
    try:
        fam = n.family().afi_safi()
        b1 = bytes(n.pack_nlri(neg))
        out['inb'] = list(inb if inb is not None else b1)
        out['out'] = list(b1)
        action = getattr(n, 'action', Action.ANNOUNCE)
        d1, left = NLRI.unpack_nlri(fam[0], fam[1], memoryview(b1), action, addpath, neg)
        d2, _ = NLRI.unpack_nlri(fam[0], fam[1], memoryview(bytes(b1)), action, addpath, neg)
        if d1 is NLRI.INVALID or d1 is None or len(left):
            out['error'] = 'its own encoding is not decoded (%d bytes left)' % len(left)
            return out
        out['out2'] = list(bytes(d1.pack_nlri(neg)))
        out['eq'] = bool(d1 == n)
        out['hashEq'] = hash(d1) == hash(n)
        out['idxEq'] = index_of(d1) == index_of(n)
        out['renderSame'] = render(d1) == render(d2)          # of a decoded object: a function of its bytes
    except Exception as exc:  # noqa: BLE001
        out['error'] = type(exc).__name__ + ': ' + str(exc)[:140]
    return out


def trip_attr(code, attr, neg, canonical: bool, inb: bytes | None) -> dict:
    out = {'kind': 'trip', 'what': f'attribute {int(code)} {type(attr).__name__}', 'canonical': canonical and inb is not None, 'error': '', 'inb': [], 'out': [], 'out2': [], 'eq': False, 'hashEq': True, 'idxEq': True, 'renderSame': False}
    try:
        b1 = bytes(attr.pack_attribute(neg))
        out['inb'] = list(inb if inb is not None else b1)
        out['out'] = list(b1)
        c1 = AttributeCollection.unpack(memoryview(b1), neg)
        c2 = AttributeCollection.unpack(memoryview(bytes(b1)), neg)
        if int(code) == 26 and int(code) not in c1:
            return None         # AIGP is discarded on purpose on a session whose neighbour has not enabled it (RFC 7311 3.1)
        if int(code) not in c1:
            out['error'] = 'its own encoding decodes to no such attribute (codes %s)' % sorted(int(k) for k in c1.keys())
            return out
        d1, d2 = c1[int(code)], c2[int(code)]
        out['out2'] = list(bytes(d1.pack_attribute(neg)))
        out['eq'] = bool(d1 == attr)
        if type(attr).__name__ == 'GenericAttribute':
            # Named deviations, not judged: an attribute given as raw bytes (`attribute [ code flags value ]`) decodes to the
            # class of its code when ExaBGP knows it, and an unrecognised optional transitive attribute comes back with the
            # Partial bit set (RFC 4271 5: it was not recognised by this speaker).  The value bytes must still be the same.
            mask = lambda b: [b[0] & 0xDF] + list(b[1:]) if b else []   # noqa: E731
            out['out'], out['out2'], out['inb'] = mask(out['out']), mask(out['out2']), mask(out['inb'])
            out['eq'] = out['out2'] == out['out']
        try:
            out['hashEq'] = hash(d1) == hash(attr)
        except TypeError:
            out['hashEq'] = True          # unhashable attribute types make no promise about hashes
        out['renderSame'] = render(d1) == render(d2)
    except Exception as exc:  # noqa: BLE001
        out['error'] = type(exc).__name__ + ': ' + str(exc)[:140]
    return out


def split_attrs(block: bytes) -> dict:
    """code -> raw TLV bytes of each attribute in a path attribute block (RFC 4271 4.3 walk)"""
    out, i = {}, 0
    while i + 3 <= len(block):
        flags, code = block[i], block[i + 1]
        if flags & 0x10:
            ln, h = int.from_bytes(block[i + 2 : i + 4], 'big'), 4
        else:
            ln, h = block[i + 2], 3
        out.setdefault(code, block[i : i + h + ln])
        i += h + ln
    return out


def corpus_lines(limit: int, rnd: random.Random) -> list:
    from harness import c03

    neg = c03.make_neg('all')
    neg_ap = c03.make_neg('ext')
    lines = []
    for typ, body in c03.corpus():
        if typ != 2:
            continue
        for ng, ap in ((neg, False), (neg_ap, True)):
            try:
                msg = Message.unpack(2, memoryview(body), ng)
                data = msg.data if hasattr(msg, 'data') else None
            except Exception:  # noqa: BLE001 - C03's business
                continue
            if data is None:
                continue
            wl = int.from_bytes(body[:2], 'big')
            al = int.from_bytes(body[2 + wl : 4 + wl], 'big')
            raw = split_attrs(body[4 + wl : 4 + wl + al])
            for routed in data.announces:
                lines.append(trip_nlri(routed.nlri, ng, ap, False))
            for n in data.withdraws:
                lines.append(trip_nlri(n, ng, ap, False))
            for code, attr in data.attributes.items():
                if int(code) in (14, 15) or int(code) > 255:
                    continue
                ln = trip_attr(code, attr, ng, True, raw.get(int(code)))
                if ln is not None:
                    lines.append(ln)
            break       # the first session which decodes the message
    return lines if len(lines) <= limit else rnd.sample(lines, limit)


def config_lines(limit: int, rnd: random.Random) -> list:
    """every route of every configuration file the repository ships (etc/exabgp/*.conf): objects reachable from the text grammar"""
    import glob

    from harness import c03
    from harness.common import REPO

    neg = c03.make_neg('all')
    neg_ap = c03.make_neg('ext')
    lines, seen = [], set()
    for path in sorted(glob.glob(os.path.join(REPO, 'etc', 'exabgp', '*.conf'))):
        RIB._cache.clear()
        try:
            conf = Configuration([path])
            if not conf.reload():
                continue
        except BaseException:  # noqa: BLE001 - some example files need processes or files which are not there
            continue
        for nb in conf.neighbors.values():
            for route in list(getattr(nb, 'routes', []) or []):
                try:
                    key = (bytes(route.nlri.pack_nlri(neg)), route.nlri.family().afi_safi())
                except Exception:  # noqa: BLE001
                    key = (id(route), None)
                if key not in seen:
                    seen.add(key)
                    has_pid = 'path-information' in str(route.nlri)
                    if has_pid and tuple(int(x) for x in route.nlri.family().afi_safi()) not in ((1, 1), (2, 1)):
                        continue        # the ADD-PATH session of this harness covers unicast only (the nlri table covers the rest)
                    ln = trip_nlri(route.nlri, neg_ap if has_pid else neg, has_pid, False)
                    ln['what'] += ' <- ' + os.path.basename(path)
                    lines.append(ln)
                for code, attr in route.attributes.items():
                    if int(code) in (3, 14, 15) or int(code) > 255:
                        continue
                    try:
                        akey = (int(code), bytes(attr.pack_attribute(neg)))
                    except Exception:  # noqa: BLE001
                        akey = (int(code), id(attr))
                    if akey in seen:
                        continue
                    seen.add(akey)
                    ln = trip_attr(code, attr, neg, False, None)
                    if ln is not None:
                        ln['what'] += ' <- ' + os.path.basename(path)
                        lines.append(ln)
    return lines if len(lines) <= limit else rnd.sample(lines, limit)


def tunnel_lines(ck, tier: str) -> list:
    """SR Policy tunnel encapsulation attributes with the reference bytes computed in TLA+ (Gen_ExaTunnel): the bytes go
    through the real decoder, and must come back unchanged (they are canonical), twice, with equal renderings"""
    from harness import c03

    neg = c03.make_neg('all')
    states = updcheck.gen_rows(ck, 'Gen_ExaTunnel', 2 if tier == 'quick' else 4, 'c15t' + tier[0], invariants=('TableOK',))
    lines = []
    for st in states:
        raw = bytes(st['bytes'])
        out = {'kind': 'trip', 'what': 'attribute 23 TunnelEncap (reference bytes) ' + json.dumps(st['u'], sort_keys=True), 'canonical': True, 'error': '', 'inb': list(raw), 'out': [], 'out2': [],
               'eq': False, 'hashEq': True, 'idxEq': True, 'renderSame': False}
        try:
            c1 = AttributeCollection.unpack(memoryview(raw), neg)
            c2 = AttributeCollection.unpack(memoryview(bytes(raw)), neg)
            if 23 not in c1:
                out['error'] = 'the reference bytes decode to no tunnel encapsulation attribute (codes %s)' % sorted(int(k) for k in c1.keys())
            else:
                b1 = bytes(c1[23].pack_attribute(neg))
                out['out'] = list(b1)
                d = AttributeCollection.unpack(memoryview(b1), neg)
                out['out2'] = list(bytes(d[23].pack_attribute(neg))) if 23 in d else []
                out['eq'] = 23 in d and bool(d[23] == c1[23])
                out['renderSame'] = render(c1[23]) == render(c2[23])
        except Exception as exc:  # noqa: BLE001
            out['error'] = type(exc).__name__ + ': ' + str(exc)[:140]
        lines.append(out)
    return lines


ATTR_TEXTS = [
    'origin igp', 'origin incomplete', 'as-path [ 65001 65002 ]', 'as-path [ 65001 4200000000 ] ( 65030 65040 )', 'med 0', 'med 4294967295', 'local-preference 100',
    'atomic-aggregate', 'aggregator ( 65010:10.0.0.9 )', 'aggregator ( 4200000000:10.0.0.9 )', 'community [ 65000:1 ]', 'community [ no-export 65000:1 65000:2 ]',
    'community [ ' + ' '.join(f'65000:{i}' for i in range(1, 64)) + ' ]', 'community [ ' + ' '.join(f'65000:{i}' for i in range(1, 65)) + ' ]',
    'large-community [ 1:2:3 ]', 'large-community [ 4294967295:4294967295:4294967295 1:2:3 ]', 'large-community [ ' + ' '.join(f'65000:{i}:1' for i in range(1, 23)) + ' ]',
    'extended-community [ target:65000:1 ]', 'extended-community [ target:4200000000:1 origin:1.2.3.4:5 ]', 'extended-community [ 0x0002fde800000001 ]',
    'originator-id 10.0.0.1', 'cluster-list [ 10.0.0.1 10.0.0.2 ]', 'aigp 100', 'aigp 4294967296',
    'attribute [ 0xfa 0xc0 0x0102 ]', 'attribute [ 0xfa 0xc0 0x' + '00' * 255 + ' ]', 'attribute [ 0xfa 0xc0 0x' + '00' * 256 + ' ]',
    'bgp-prefix-sid [ 5 ]', 'bgp-prefix-sid [ 300, [ ( 800000,4096 ) ] ]',
]


def text_attr_lines(sess) -> list:
    lines = []
    for t in ATTR_TEXTS:
        parsed = sess.conf.parse_route_text('route 10.0.1.0/24 next-hop 192.0.2.1 ' + t)
        if not parsed:
            continue        # not every build of the grammar has every keyword: C18 judges refusals
        for code, attr in parsed[0].attributes.items():
            if int(code) in (3, 14, 15) or int(code) > 255:
                continue
            ln = trip_attr(code, attr, sess.neg, False, None)
            if ln is not None:
                ln['what'] += ' <- ' + t[:50]
                lines.append(ln)
    return lines


def run(tier: str) -> int:
    ck = Check('C15', tier, 'model_checking')
    ck.cov['rule'] = (
        'cases = (1) NLRI rows enumerated by TLC (Gen_ExaCodec: IPv4/IPv6 unicast, labeled, VPN x five prefix shapes x label stacks of 1-3 labels, '
        'label 0 and 1048575 x three route distinguisher types x path identifiers 0 / 7 / 2^32-1) with the RFC 8277 / 4364 / 7911 bytes computed in '
        'TLA+: route text -> real parser -> pack_nlri() compared with them, the RFC bytes -> real decoder -> equal object, same bytes; (2) pairs of '
        'rows one field apart: equal index iff same family, path identifier, prefix and route distinguisher; (3) every NLRI and attribute object '
        "decoded from ExaBGP's own message corpus and every attribute form of the text grammar: pack(decode(b)) = b, idempotence, decode(pack(x)) == x "
        'with equal hash and index, deterministic renderings; every line is judged by TLC (Judge_ExaCodec); distinct = distinct rows / objects'
    )
    ck.assumptions += [
        'the label stack is not part of the identity of a route (RFC 8277 2.4); a reference encoding exists in TLA+ for unicast / labeled / VPN only, '
        'FlowSpec has its own (C16); the other families are held to the identity contract on the objects of the corpus',
    ]
    rnd = random.Random(seed())
    states = updcheck.gen_rows(ck, 'Gen_ExaCodec', 2 if tier == 'quick' else 5, 'c15' + tier[0], invariants=('TableOK',))
    limit = 6000 if tier == 'quick' else 200000
    ck.cov['exhaustive'] = len(states) <= limit
    if len(states) > limit:
        singles = [s for s in states if s['u']['r'] == s['u']['r2']]
        pairs = [s for s in states if s['u']['r'] != s['u']['r2']]
        states = singles + rnd.sample(pairs, max(0, limit - len(singles)))
    sessions = {False: Session(False), True: Session(True)}
    lines = []
    for st in states:
        r, r2 = st['u']['r'], st['u']['r2']
        ln = nlri_line(sessions, r, bytes(st['bytes'])) if r == r2 else pair_line(sessions, r, r2)
        lines.append(ln)
        ck.count({'r': r, 'r2': r2}, nontrivial=bool(diff(r)))
    n_rows = len(lines)
    trips = corpus_lines(4000 if tier == 'quick' else 100000, rnd) + config_lines(4000 if tier == 'quick' else 100000, rnd) + text_attr_lines(sessions[False]) + tunnel_lines(ck, tier)
    for ln in trips:
        ck.count({'what': ln['what'], 'inb': bytes(ln['inb']).hex()[:64]})
    lines += trips
    for i, ln in enumerate(lines):
        ln['id'] = i
    ck.sample({'row': lines[1]['r'], 'text': route_text(lines[1]['r']), 'packed_hex': bytes(lines[1].get('packed', [])).hex()})
    if trips:
        ck.sample({'round_trip': trips[len(trips) // 2]['what'], 'bytes_hex': bytes(trips[len(trips) // 2]['inb']).hex()[:80]})
    keep = ('id', 'kind', 'r', 'r2', 'error', 'packed', 'redecOk', 'redec', 'eq', 'hashEq', 'idxEq', 'renderSame', 'fam', 'canonical', 'inb', 'out', 'out2')
    bad, res = updcheck.judge([{k: ln[k] for k in keep if k in ln} for ln in lines], 'Judge_ExaCodec', 'c15' + tier[0])
    ck.tlc(res, f'Judge_ExaCodec: {n_rows} NLRI rows / pairs and {len(trips)} round trips')
    ck.cov['traces_validated_against_impl'] = len(lines)
    ck.cov['object_kinds_round_tripped'] = sorted({ln['what'].split(' <- ')[0] for ln in trips})
    for b in bad:
        ln = lines[b['id']]
        for clause in b['clauses']:
            if ln['kind'] == 'trip':
                fp = {'clause': clause, 'what': ln['what'].split(' <- ')[0].split(' (reference bytes)')[0]}
                what = f'{clause}: {ln["what"]} in={bytes(ln["inb"]).hex()[:80]} out={bytes(ln["out"]).hex()[:80]} error={ln["error"]!r}'
            else:
                fp = {'clause': clause, 'changed': diff(ln['r']), 'other': diff(ln['r2']) if ln['kind'] == 'pair' else {}}
                what = f'{clause}: {route_text(ln["r"])}' + (f' / {route_text(ln["r2"])}' if ln['kind'] == 'pair' else f' packed={bytes(ln.get("packed", [])).hex()}') + f' error={ln["error"]!r}'
            ck.violation(fp, what, {'line': {k: ln[k] for k in keep if k in ln}, 'clause': clause, 'what': ln.get('what', '')})
    return ck.finish()


def replay(path: str) -> int:
    c = json.load(open(path))['case']
    ln = c['line']
    sessions = {False: Session(False), True: Session(True)}
    if ln['kind'] == 'nlri':
        from harness import tlc  # noqa: F401

        states = [s for s in updcheck.gen_rows(Check('C15', 'replay', 'model_checking'), 'Gen_ExaCodec', 5, 'c15r', invariants=()) if s['u']['r'] == ln['r'] and s['u']['r2'] == ln['r']]
        new = nlri_line(sessions, ln['r'], bytes(states[0]['bytes']))
    elif ln['kind'] == 'pair':
        new = pair_line(sessions, ln['r'], ln['r2'])
    else:
        print('round-trip lines are re-run by the check itself (objects come from the corpus): run ./check C15 --tier quick')
        return 0
    new['id'] = 0
    bad, _ = updcheck.judge([new], 'Judge_ExaCodec', 'replay')
    print(new)
    if any(c['clause'] in b['clauses'] for b in bad):
        print(f'VIOLATION property=C15 replay={path}')
        return 1
    print('replay: property held on this case')
    return 0
