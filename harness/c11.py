"""C11 - after any session loss the peer is fully resynchronised."""

from __future__ import annotations

import json
import random

from harness import ribcheck, systemcheck
from harness.common import Check, seed

RIB_RULES = {'A2-peer-table-differs-after-drain', 'A3-end-of-rib-in-update-stream', 'A1-adj-rib-out-differs-from-intent'}


def run(tier: str) -> int:
    ck = Check('C11', tier, 'model_checking')
    ck.cov['rule'] = (
        'cases = (a) ExaRib histories containing a session loss (one per distinct TLC state and last action, bounded depth) replayed on '
        'the real OutgoingRIB and judged by TLC; (b) peer-level scenarios (TLC histories translated to remote-speaker scripts + seeded '
        'cut-at-the-j-th-message scripts, configured and API routes, rate-limit on/off) run on the real Peer under a virtual clock, the '
        'messages received on each session judged by TLC (Obs_ExaSystem); distinct = distinct scripts; non-trivial = at least two steps'
    )
    ck.assumptions += [
        'adj-rib-out kept; graceful-restart disabled; families ipv4/ipv6 unicast with ADD-PATH; keys k1 k2 k3, attrs x y',
        'peer-level: session loss = EOF from the remote end; the connection is cut after the j-th UPDATE, during establishment, or while idle',
    ]
    rnd = random.Random(seed())
    if tier == 'quick':
        ribcheck.model_check(ck, ['k1', 'k3'], ['x', 'y'], 6, 'c11q')
        hists = ribcheck.run_rib(ck, 'C11', ['k1', 'k3'], ['x', 'y'], 5, 100, RIB_RULES, 'c11q', only_with={'SessionDown'})
        n_hist, n_cut = 120, 60
    else:
        ribcheck.model_check(ck, ['k1', 'k3'], ['x', 'y'], 8, 'c11t', timeout=2400)
        hists = ribcheck.run_rib(ck, 'C11', ['k1', 'k3'], ['x', 'y'], 6, 2000, RIB_RULES, 'c11t', only_with={'SessionDown'})
        n_hist, n_cut = 2500, 1500
    # peer level
    pool = [h for h in hists if sum(1 for a in h if a['name'] in ('SessionDown', 'SessionUp')) >= 2]
    rnd.shuffle(pool)
    scen = []
    for i, h in enumerate(pool[:n_hist]):
        scen.append((systemcheck.from_rib_history(h, rnd), {'k2': 'y'} if i % 2 else {}, i % 3 == 0))
    for i, steps in enumerate(systemcheck.cut_scenarios(rnd, n_cut)):
        scen.append((steps, {'k2': 'y', 'k1': 'x'} if i % 2 else {'k2': 'y'}, i % 2 == 0))
    # the same cuts on a neighbour which keeps no Adj-RIB-Out: its configured routes must still come back after every loss
    for i in range(8 if tier == 'quick' else 60):
        steps = [{'do': 'est'}, {'do': 'more', 'n': rnd.randint(1, 4)} if i % 2 else {'do': 'sleep', 'ms': rnd.choice([1, 120, 400])}, {'do': 'cut'}]
        if i % 3 == 0:
            steps += [{'do': 'sleep', 'ms': 300}, {'do': 'cut'}]
        if i % 4 == 3:
            steps += [{'do': 'est'}, {'do': 'sleep', 'ms': 200}, {'do': 'cut'}]
        steps += [{'do': 'est'}, {'do': 'quiet'}]
        scen.append((steps, [{'k2': 'y', 'k1': 'x'}, {'k3': 'x'}, {'k1': 'y', 'k3': 'y'}][i % 3], False, True))
    systemcheck.run_system(ck, scen, 'c11' + tier[0])
    return ck.finish()


def replay(path: str) -> int:
    case = json.load(open(path))
    c = case['case']
    if 'script' in c:
        from harness import c04

        return c04.replay(path)
    lines = systemcheck.run_one(c['steps'], 0, c['configured'], c['rate'], c.get('nocache', False))
    bad, _ = systemcheck.judge(lines, 'replay')
    for ln in lines:
        print({k: v for k, v in ln.items() if v not in ('', [], {})})
    if any(c['clause'] in b['clauses'] for b in bad):
        print(f'VIOLATION property=C11 replay={path}')
        return 1
    print('replay: property held on this case')
    return 0
