"""Drives the real API path (Processes line reassembly -> API dispatch -> command callbacks -> replies) step by step, as one
iteration of Reactor._async_main_loop does, with a fake helper process whose stdout/stdin are pipes."""

from __future__ import annotations

import asyncio
import os

os.environ.setdefault('exabgp_log_enable', 'false')

from exabgp.configuration.configuration import Configuration  # noqa: E402
from exabgp.reactor.api import API  # noqa: E402
from exabgp.reactor.api import processes as processes_mod  # noqa: E402
from exabgp.reactor.api.processes import Processes  # noqa: E402
from exabgp.reactor.asynchronous import ASYNC  # noqa: E402
from exabgp.reactor.loop import Reactor  # noqa: E402
from exabgp.reactor.peer.peer import Peer  # noqa: E402
from exabgp.rib import RIB  # noqa: E402

NEIGHBORS = {
    'n1': {'addr': '127.0.0.11', 'local_as': 65000, 'peer_as': 65001, 'rid': '1.1.1.1'},
    'n2': {'addr': '127.0.0.12', 'local_as': 65000, 'peer_as': 65002, 'rid': '1.1.1.1'},
    'n3': {'addr': '127.0.0.110', 'local_as': 65000, 'peer_as': 65001, 'rid': '2.2.2.2'},   # address has n1's as a textual prefix
}


def conf_text(families: str = 'ipv4 unicast;') -> str:
    out = ['process svc {\n  run /bin/true;\n  encoder json;\n}\n']
    for n in NEIGHBORS.values():
        out.append(f"""
neighbor {n['addr']} {{
  router-id {n['rid']};
  local-address 127.0.0.1;
  local-as {n['local_as']};
  peer-as {n['peer_as']};
  family {{ {families} }}
  api {{ processes [ svc ]; }}
}}
""")
    return ''.join(out)


class FakeProc:
    """Stands for the forked helper: what it writes is put in `to_exabgp`, what ExaBGP answers is read from `from_exabgp`."""

    def __init__(self, *a, **kw) -> None:
        r1, w1 = os.pipe()  # helper stdout -> exabgp
        r2, w2 = os.pipe()  # exabgp -> helper stdin
        self.stdout = os.fdopen(r1, 'rb', 0)
        self.stdin = os.fdopen(w2, 'wb', 0)
        self.to_exabgp = w1
        self.from_exabgp = r2
        os.set_blocking(r2, False)
        self.pid = 4242
        self.returncode = None

    def poll(self):
        return None

    def wait(self, timeout=None):
        return 0

    def terminate(self):
        pass

    kill = terminate


class ApiWorld:
    def __init__(self, api_version: int = 6, ack: bool = True, families: str = 'ipv4 unicast;') -> None:
        from exabgp.environment import getenv

        RIB._cache.clear()
        getenv().api.version = api_version
        getenv().api.ack = ack
        self.conf = Configuration([conf_text(families)], text=True)
        if not self.conf.reload():
            raise RuntimeError('harness configuration refused: %s' % getattr(self.conf, 'error', ''))
        r = self.reactor = Reactor.__new__(Reactor)
        r.configuration = self.conf
        r.asynchronous = ASYNC()
        r.processes = Processes()
        r._peers = {}
        r._stopping = False
        for key, nb in self.conf.neighbors.items():
            r._peers[key] = Peer(nb, r)
        r.api = API(r)
        self.names = {}
        for key, nb in self.conf.neighbors.items():
            for short, spec in NEIGHBORS.items():
                if str(nb.session.peer_address) == spec['addr']:
                    self.names[short] = key
        saved = processes_mod.subprocess.Popen
        processes_mod.subprocess.Popen = FakeProc
        try:
            r.processes.start(self.conf.processes)
        finally:
            processes_mod.subprocess.Popen = saved
        r.processes._async_mode = True
        r.asynchronous.set_error_handler(r.processes.answer_error_sync)   # as Reactor.run() wires it
        self.proc = r.processes._process['svc']
        self.loop = asyncio.new_event_loop()
        self.replies = b''
        self.executed: list = []
        # observe what received_async hands to the dispatcher
        orig = r.api.process

        def process(reactor, service, command):
            self.executed.append(command)
            return orig(reactor, service, command)

        r.api.process = process

    def write(self, data: bytes) -> None:
        os.write(self.proc.to_exabgp, data)

    def cycle(self) -> None:
        """One reactor iteration: read what the pipe holds, dispatch at most one command, run callbacks, flush replies."""
        r = self.reactor
        import select

        if select.select([self.proc.stdout.fileno()], [], [], 0)[0]:
            r.processes._async_reader_callback('svc')
        for service, command in r.processes.received_async():
            r.api.process(r, service, command)

        async def rest():
            if r.asynchronous._async:
                await r.asynchronous._run_async()
            await r.processes.flush_write_queue()

        self.loop.run_until_complete(rest())
        try:
            while True:
                chunk = os.read(self.proc.from_exabgp, 65536)
                if not chunk:
                    break
                self.replies += chunk
        except BlockingIOError:
            pass

    def ribs(self) -> dict:
        """neighbour short name -> sorted list of prefixes in its Adj-RIB-Out (cache) + queued"""
        out = {}
        for short, key in self.names.items():
            rib = self.conf.neighbors[key].rib.outgoing
            out[short] = sorted({str(rt.nlri).split(' ')[0] + '|' + str(rt.attributes.get(4, '')) for rt in rib.cached_routes()})
        return out

    def close(self) -> None:
        for fd in (self.proc.to_exabgp, self.proc.from_exabgp):
            try:
                os.close(fd)
            except OSError:
                pass
        try:
            self.proc.stdout.close()
            self.proc.stdin.close()
        except OSError:
            pass
        self.loop.close()
