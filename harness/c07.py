"""C07 - negotiated session parameters are the RFC function of the two OPENs."""

from __future__ import annotations

import json

from harness import negcheck
from harness.common import Check


def run(tier: str) -> int:
    ck = Check('C07', tier, 'model_checking')
    ck.cov['rule'] = (
        'cases = rows (our neighbour configuration, peer OPEN) enumerated by TLC as the initial states of Gen_ExaNegotiate: a valid '
        'base row with up to Width of its 21 fields changed (families, AS classes incl. 65535/65536/4200000001, iBGP, ASN4, ADD-PATH '
        'modes, extended message, refresh flavours, hold times incl. 0/1/2/65535, version, identifier, parameter forms incl. RFC 9072, '
        'duplicate/unknown capabilities, > 255 bytes of capabilities); the peer OPEN bytes come from ExaWire!EncOpen; each row is executed '
        'on the real code and judged by TLC; distinct = distinct rows; non-trivial = differs from the base row'
    )
    ck.assumptions += ['router-id 1.2.3.4 ours; peer OPEN built with one capability per parameter, all in one, or RFC 9072 form']
    negcheck.run_table(ck, 2 if tier == 'quick' else 3, 4000 if tier == 'quick' else 60000, 'c07' + tier[0])
    return ck.finish()


def replay(path: str) -> int:
    case = json.load(open(path))
    print('replay by re-running the row through ./check C07 (rows are enumerated deterministically):', case['fingerprint'])
    return run('quick')
