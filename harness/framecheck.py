"""C06: TLC enumerates (stream, negotiated maximum, segmentation) over ExaFraming and checks `Framed`; every enumerated
case is replayed into the real Connection.reader_async() and its generator twin reader(), and TLC's verdict for the case
(delivered messages, header error) is compared with what the real readers delivered."""

from __future__ import annotations

import asyncio
import json
import os
import random
import socket
import struct

os.environ.setdefault('exabgp_log_enable', 'false')

from exabgp.protocol.family import AFI  # noqa: E402
from exabgp.reactor.network.connection import Connection  # noqa: E402

from harness import bgpmsg, tlc, vtime  # noqa: E402
from harness.common import Check, seed  # noqa: E402


def build(desc: dict) -> bytes:
    """Concrete bytes for a message descriptor of ExaFraming."""
    marker = bgpmsg.MARKER if desc['mark'] else b'\xff' * 15 + b'\x7f'
    n = desc['actual'] - 19
    if desc['type'] == 2 and desc['actual'] == 27:
        body = b'\x00\x04\x18\x0a\x00\x01\x00\x00'
    elif desc['type'] == 5 and n == 4:
        body = b'\x00\x01\x00\x01'
    elif desc['type'] == 2 and n > 8:
        pad = n - 4 - 4  # one unknown optional transitive attribute with extended length
        body = b'\x00\x00' + struct.pack('!H', n - 4) + struct.pack('!BBH', 0xD0, 250, pad) + b'\x00' * pad
    else:
        body = b'\x00' * n
    return marker + struct.pack('!HB', desc['len'], desc['type']) + body


def segments(data: bytes, cuts) -> list[bytes]:
    out, i = [], 0
    for c in sorted(cuts):
        out.append(data[i:c])
        i = c
    out.append(data[i:])
    return [s for s in out if s]


def new_conn(max_len: int):
    a, b = socket.socketpair()
    a.setblocking(False)
    b.setblocking(False)
    conn = Connection(AFI.ipv4, '127.0.0.2', '127.0.0.1')
    conn.io = a
    conn.msg_size = max_len
    return conn, b


def run_async(segs, max_len):
    """Feed the segments to reader_async(); -> (delivered [(type, len)], error (c, s), bodies_ok)"""
    conn, remote = new_conn(max_len)
    clock = vtime.Clock()
    loop = vtime.VLoop(clock)
    out, err, raw = [], [0, 0], []

    async def consumer():
        while True:
            length, typ, header, body, notify = await conn.reader_async()
            if notify is not None:
                err[0], err[1] = notify.code, notify.subcode
                return
            out.append([typ, length])
            raw.append(bytes(header) + bytes(body))

    async def main():
        task = asyncio.ensure_future(consumer())
        for s in segs:
            remote.sendall(s)
            for _ in range(4):
                await asyncio.sleep(0)
            await asyncio.sleep(0.01)
        await asyncio.sleep(0.05)
        task.cancel()
        try:
            await task
        except (asyncio.CancelledError, Exception):
            pass

    try:
        loop.run_until_complete(main())
    finally:
        loop.close()
        remote.close()
        if conn.io:
            conn.io.close()
            conn.io = None
    return out, err, raw


def run_generator(segs, max_len):
    """Same through the generator twin reader()."""
    conn, remote = new_conn(max_len)
    out, err, raw = [], [0, 0], []
    gen = conn.reader()
    dead = False

    def pump():
        nonlocal gen, dead
        for _ in range(64):
            if dead:
                return
            try:
                length, typ, header, body, notify = next(gen)
            except StopIteration:
                gen = conn.reader()
                continue
            if notify is not None:
                err[0], err[1] = notify.code, notify.subcode
                dead = True
                return
            if length == 0 and typ == 0:
                return  # waiting for more bytes
            out.append([typ, length])
            raw.append(bytes(header) + bytes(body))

    try:
        for s in segs:
            remote.sendall(s)
            pump()
        pump()
    finally:
        remote.close()
        if conn.io:
            conn.io.close()
            conn.io = None
    return out, err, raw


def cases_from_tlc(ck: Check, max_msgs: int, max_cuts: int, label: str):
    cfg = f"""SPECIFICATION Spec
CONSTANTS
  MaxLens = {{4096, 65535}}
  Alphabet <- MCAlphabet
  CutOffsets <- MCCutOffsets
  MaxMsgs = {max_msgs}
  MaxCuts = {max_cuts}
INVARIANT Framed
INVARIANT Complete
CHECK_DEADLOCK FALSE
"""
    res, states = tlc.dump_states('MC_ExaFraming', '', f'frame-{label}', ['stream', 'maxLen', 'cuts', 'pos', 'rd', 'out', 'err'], cfg_text=cfg)
    ck.tlc(res, f'MC_ExaFraming {label}: streams of <= {max_msgs} messages, <= {max_cuts} cuts, both maxima; invariants Framed, Complete')
    if not res.ok:
        raise tlc.TLCError(f'MC_ExaFraming violates {res.violated_invariant}: ' + res.out[-1500:])
    final = {}
    for st in states:
        key = json.dumps([st['stream'], st['maxLen'], sorted(st['cuts']['__set__'])])
        if key not in final or (st['pos'], st['rd']) > (final[key]['pos'], final[key]['rd']):
            final[key] = st
    return list(final.values())


def run_frames(ck: Check, cases, rnd: random.Random, limit: int) -> None:
    if len(cases) > limit:
        ck.cov['exhaustive'] = False
        cases = rnd.sample(cases, limit)
    else:
        ck.cov['exhaustive'] = True
    for n, st in enumerate(cases):
        stream = st['stream']
        data = b''.join(build(d) for d in stream)
        cuts = sorted(st['cuts']['__set__'])
        segs = segments(data, cuts)
        want_out = [list(x) for x in st['out']]
        want_err = list(st['err'])
        # expected bodies: the exact bytes of each delivered message
        want_raw, i = [], 0
        for d in stream[: len(want_out)]:
            want_raw.append(data[i : i + d['len']])
            i += d['actual']
        for name, fn in (('reader_async', run_async), ('reader', run_generator)):
            out, err, raw = fn(segs, st['maxLen'])
            # the readers hand an unknown type over to Protocol.read_message, which refuses it with 1/3 (checked at peer
            # level): at this boundary "delivered with an unknown type" and "refused with 1/3" are the same verdict
            for i, (typ, _ln) in enumerate(out):
                if typ not in (1, 2, 3, 4, 5, 6):
                    out, raw, err = out[:i], raw[:i], [1, 3]
                    break
            case = {'reader': name, 'stream': stream, 'maxLen': st['maxLen'], 'cuts': cuts}
            ck.count(case, nontrivial=len(cuts) >= 1 or len(stream) >= 2)
            if n in (0, len(cases) // 2) and name == 'reader_async':
                ck.sample({**case, 'delivered': out, 'error': err, 'expected': {'out': want_out, 'err': want_err}})
            if out != want_out or err != want_err or raw != want_raw:
                kind = 'delivered messages differ' if out != want_out else ('header error differs' if err != want_err else 'message content differs')
                fp = {'reader': name, 'kind': kind, 'classes': [[d['mark'], d['len'], d['type']] for d in stream], 'maxLen': st['maxLen'], 'ncuts': len(cuts)}
                ck.violation(fp, f'{name}: {kind}: stream={stream} maxLen={st["maxLen"]} cuts={cuts}: delivered {out} error {err}, specification says {want_out} error {want_err}', {**case, 'got': {'out': out, 'err': err}, 'want': {'out': want_out, 'err': want_err}})
    ck.cov['traces_validated_against_impl'] = ck.cov.get('traces_validated_against_impl', 0) + 2 * len(cases)
