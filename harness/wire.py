"""Minimal, independent (written from RFC 4271/4760/7911, not from ExaBGP) UPDATE splitter.

Used only to *abstract* wire messages into (kind, keys, attribute signature) for the RIB / session level
specifications.  Byte-level correctness of the encoder/decoder is judged by the TLA+ codec (spec/ExaWire.tla), not here.
"""

from __future__ import annotations

import struct

MARKER = b'\xff' * 16


def split_messages(data: bytes) -> list[tuple[int, bytes]]:
    """Split a byte stream into (type, body) using the 19-byte header only."""
    out = []
    i = 0
    while i + 19 <= len(data):
        length = struct.unpack('!H', data[i + 16 : i + 18])[0]
        if length < 19 or i + length > len(data):
            break
        out.append((data[i + 18], data[i + 19 : i + length]))
        i += length
    return out


LABELS: dict = {}     # key -> label stack (bytes) of the labeled NLRI (RFC 8277) seen last for that key: payload, not identity


def _prefixes(data: bytes, afi: int, addpath: bool, safi: int = 1) -> list[tuple]:
    out = []
    i = 0
    while i < len(data):
        pid = None
        if addpath:
            pid = struct.unpack('!I', data[i : i + 4])[0]
            i += 4
        bits = data[i]
        i += 1
        labels = b''
        if safi == 4:
            while bits >= 24:           # 3 octets per label, up to the bottom-of-stack bit (or the withdraw label 0x800000)
                lab = bytes(data[i : i + 3])
                labels += lab
                i += 3
                bits -= 24
                if lab[2] & 1 or lab in (b'\x80\x00\x00', b'\x00\x00\x00'):
                    break
        n = (bits + 7) // 8
        key = (afi, 1, pid, bits, bytes(data[i : i + n]))
        if safi == 4:
            LABELS[(afi, safi) + key[2:]] = labels
        out.append(key)
        i += n
    return out


def decode_update(body: bytes, addpath: dict | None = None) -> dict:
    """-> {'withdraw': [key...], 'announce': [key...], 'attrs': {code: (flags, value)}, 'nexthop': bytes|None, 'eor': fam|None}
    key = (afi, safi, pathid|None, bits, prefix-bytes).  addpath: {(afi,safi): bool} for the direction of this message."""
    addpath = addpath or {}
    wl = struct.unpack('!H', body[:2])[0]
    wd = body[2 : 2 + wl]
    al = struct.unpack('!H', body[2 + wl : 4 + wl])[0]
    at = body[4 + wl : 4 + wl + al]
    nlri = body[4 + wl + al :]
    res = {'withdraw': [], 'announce': [], 'attrs': {}, 'nexthop': None, 'eor': None, 'mp_nexthop': None}
    res['withdraw'] += _prefixes(wd, 1, addpath.get((1, 1), False))
    i = 0
    while i < len(at):
        flags, code = at[i], at[i + 1]
        if flags & 0x10:
            ln = struct.unpack('!H', at[i + 2 : i + 4])[0]
            i += 4
        else:
            ln = at[i + 2]
            i += 3
        val = bytes(at[i : i + ln])
        i += ln
        if code == 14:
            afi, safi, nhl = struct.unpack('!HBB', val[:4])
            nh = val[4 : 4 + nhl]
            rest = val[4 + nhl + 1 :]
            res['mp_nexthop'] = nh
            for p in _prefixes(rest, afi, addpath.get((afi, safi), False), safi):
                res['announce'].append((afi, safi) + p[2:])
        elif code == 15:
            afi, safi = struct.unpack('!HB', val[:3])
            rest = val[3:]
            if not rest:
                res['eor'] = (afi, safi)
            for p in _prefixes(rest, afi, addpath.get((afi, safi), False), safi):
                res['withdraw'].append((afi, safi) + p[2:])
        else:
            if code == 3:
                res['nexthop'] = val
            res['attrs'][code] = (flags & 0xE0, val)
    res['announce'] += _prefixes(nlri, 1, addpath.get((1, 1), False))
    if not wd and not at and not nlri:
        res['eor'] = (1, 1)
    return res


def attr_signature(dec: dict) -> tuple:
    """Canonical, order-free signature of the path attributes + next hop of a decoded UPDATE."""
    items = tuple(sorted((c, f, v.hex()) for c, (f, v) in dec['attrs'].items()))
    nh = dec['mp_nexthop'].hex() if dec['mp_nexthop'] is not None else None
    labeled = [k for k in dec['announce'] if k[1] == 4]
    if labeled:                     # the label stack of a labeled route is part of what was announced for the key
        return (items, nh, LABELS.get(labeled[0], b'').hex())
    return (items, nh)
