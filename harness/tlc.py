"""TLC runner and output parsers (stdlib only)."""

from __future__ import annotations

import json
import os
import re
import shutil
import subprocess
import time

VERIF = os.path.dirname(os.path.dirname(os.path.abspath(__file__)))
SPEC = os.path.join(VERIF, 'spec')
WORK = os.path.join(VERIF, '.work')
JAR = '/opt/veriftools/tla/tla2tools.jar:/opt/veriftools/tla/CommunityModules-deps.jar'


class TLCError(Exception):
    """Machinery failure (exit code 2), never a property violation."""


def workdir(name: str) -> str:
    d = os.path.join(WORK, name)
    shutil.rmtree(d, ignore_errors=True)
    os.makedirs(d, exist_ok=True)
    return d


def cleanup(name: str) -> None:
    shutil.rmtree(os.path.join(WORK, name), ignore_errors=True)


class Result:
    def __init__(self, rc: int, out: str, wall: float) -> None:
        self.rc = rc
        self.out = out
        self.wall = wall
        self.generated = 0
        self.distinct = 0
        self.depth = 0
        m = re.findall(r'(\d+) states generated, (\d+) distinct states found', out)
        if m:
            self.generated, self.distinct = int(m[-1][0]), int(m[-1][1])
        m = re.findall(r'The depth of the complete state graph search is (\d+)', out)
        if m:
            self.depth = int(m[-1])
        self.violated_invariant = None
        m = re.search(r'Invariant (\S+) is violated', out)
        if m:
            self.violated_invariant = m.group(1)
        m = re.search(r'Action property (\S+) is violated', out)
        if m:
            self.violated_invariant = m.group(1)
        self.ok = rc == 0 and 'Model checking completed. No error has been found' in out
        self.coverage = self._coverage(out)

    @staticmethod
    def _coverage(out: str) -> dict:
        cov = {}
        # <Announce line 80, col 1 to line 80, col 20 of module ExaRib>: 12:345
        for m in re.finditer(r'^<(\w+) line \d+, col \d+ to line \d+, col \d+ of module (\w+)>: (\d+):(\d+)', out, re.M):
            cov[m.group(1)] = max(cov.get(m.group(1), 0), int(m.group(4)))
        return cov

    def printed(self) -> list:
        """Values printed with PrintT/Print (one TLA+ value per line)."""
        vals = []
        for line in self.out.splitlines():
            line = line.strip()
            if line.startswith('<<"VERIF"'):
                try:
                    vals.append(parse_value(line))
                except Exception:
                    pass
        return vals


def run(
    module: str,
    cfg: str,
    name: str,
    *,
    workers: int | str = 'auto',
    args: list[str] | None = None,
    env: dict | None = None,
    timeout: int = 3600,
    xss: str = '64m',
    deque: bool = False,
    keep: bool = False,
    cwd: str | None = None,
) -> Result:
    """Run TLC on spec/<module>.tla with config <cfg> (path or name in spec/)."""
    d = workdir(name)
    meta = os.path.join(d, 'meta')
    tmp = os.path.join(d, 'tmp')
    os.makedirs(tmp, exist_ok=True)
    cfgpath = cfg if os.path.isabs(cfg) else os.path.join(SPEC, cfg)
    jopts = [f'-Xss{xss}', f'-Djava.io.tmpdir={tmp}', '-XX:+UseParallelGC', f'-DTLA-Library={SPEC}']
    if deque:
        jopts.append('-Dtlc2.tool.queue.IStateQueue=StateDeque')
    cmd = ['java', *jopts, '-cp', JAR, 'tlc2.TLC', '-metadir', meta, '-noGenerateSpecTE', '-workers', str(workers), '-config', cfgpath]
    cmd += args or []
    if os.path.isabs(module):           # a generated root module living in the work directory (EXTENDS resolved via TLA-Library)
        cwd = os.path.dirname(module)
        module = os.path.basename(module)
    cmd.append(module)
    e = dict(os.environ)
    e.pop('JAVA_TOOL_OPTIONS', None)
    if env:
        e.update(env)
    t0 = time.time()
    try:
        p = subprocess.run(cmd, cwd=cwd or SPEC, env=e, capture_output=True, text=True, timeout=timeout)
    except subprocess.TimeoutExpired as exc:
        subprocess.run(['pkill', '-f', meta], check=False)
        raise TLCError(f'TLC timeout after {timeout}s on {module}/{cfg}') from exc
    res = Result(p.returncode, p.stdout + p.stderr, time.time() - t0)
    if not keep:
        cleanup(name)
    return res


def sany(module: str) -> bool:
    p = subprocess.run(
        ['java', '-cp', JAR, 'tla2sany.SANY', module + '.tla'], cwd=SPEC, capture_output=True, text=True
    )
    return p.returncode == 0 and 'Semantic errors' not in p.stdout and 'Parse Error' not in p.stdout and 'Fatal' not in p.stdout


# ----------------------------------------------------------------------------------------
# TLA+ value parser (records, sequences, sets, functions, strings, ints, booleans, model values)


class _P:
    def __init__(self, s: str) -> None:
        self.s = s
        self.i = 0

    def ws(self) -> None:
        while self.i < len(self.s) and self.s[self.i] in ' \t\r\n':
            self.i += 1

    def peek(self, t: str) -> bool:
        self.ws()
        return self.s.startswith(t, self.i)

    def eat(self, t: str) -> None:
        self.ws()
        if not self.s.startswith(t, self.i):
            raise ValueError(f'expected {t!r} at {self.i}: {self.s[self.i:self.i+40]!r}')
        self.i += len(t)

    def value(self):
        self.ws()
        s = self.s
        if self.peek('<<'):
            self.eat('<<')
            out = []
            if self.peek('>>'):
                self.eat('>>')
                return out
            while True:
                out.append(self.value())
                if self.peek(','):
                    self.eat(',')
                    continue
                self.eat('>>')
                return out
        if self.peek('['):
            self.eat('[')
            rec = {}
            if self.peek(']'):
                self.eat(']')
                return rec
            while True:
                self.ws()
                m = re.compile(r'[A-Za-z_][A-Za-z0-9_]*').match(s, self.i)
                if not m:
                    raise ValueError('field name')
                self.i = m.end()
                self.eat('|->')
                rec[m.group(0)] = self.value()
                if self.peek(','):
                    self.eat(',')
                    continue
                self.eat(']')
                return rec
        if self.peek('{'):
            self.eat('{')
            out = []
            if self.peek('}'):
                self.eat('}')
                return {'__set__': out}
            while True:
                out.append(self.value())
                if self.peek(','):
                    self.eat(',')
                    continue
                self.eat('}')
                return {'__set__': out}
        if self.peek('('):
            self.eat('(')
            fn = {}
            while True:
                k = self.value()
                self.eat(':>')
                v = self.value()
                fn[k if isinstance(k, (str, int)) else json.dumps(k, sort_keys=True)] = v
                if self.peek('@@'):
                    self.eat('@@')
                    continue
                self.eat(')')
                return fn
        if self.peek('"'):
            self.i += 1
            out = []
            while s[self.i] != '"':
                if s[self.i] == '\\':
                    self.i += 1
                    c = s[self.i]
                    out.append({'n': '\n', 't': '\t', 'r': '\r', 'f': '\f'}.get(c, c))
                else:
                    out.append(s[self.i])
                self.i += 1
            self.i += 1
            return ''.join(out)
        m = re.compile(r'-?\d+').match(s, self.i)
        if m:
            self.i = m.end()
            return int(m.group(0))
        m = re.compile(r'[A-Za-z_][A-Za-z0-9_]*').match(s, self.i)
        if m:
            self.i = m.end()
            w = m.group(0)
            if w == 'TRUE':
                return True
            if w == 'FALSE':
                return False
            return w
        raise ValueError(f'cannot parse at {self.i}: {s[self.i:self.i+40]!r}')


def parse_value(text: str):
    p = _P(text)
    v = p.value()
    p.ws()
    if p.i != len(p.s):
        raise ValueError(f'trailing text: {p.s[p.i:p.i+40]!r}')
    return v


_HDR = re.compile(r'^\\\* <(\w+)(?:\((.*)\))? line \d+', re.M)


def parse_sim_file(path: str) -> list:
    """Parse one file written by `-simulate file=...`: list of (action, args_text, {var: value})."""
    text = open(path).read()
    out = []
    # blocks: "\* <Action ...>\nSTATE_n == \n/\ v = ...\n/\ w = ...\n\n"
    blocks = re.split(r'\n(?=\\\* )', text)
    for b in blocks:
        m = _HDR.search(b)
        if not m:
            if 'STATE_1' not in b:
                continue
        action = m.group(1) if m else 'Init'
        args = m.group(2) if m and m.group(2) else ''
        body = b.split('==', 1)[1] if '==' in b else ''
        st = {}
        for part in re.split(r'\n/\\ ', '\n' + body.strip()):
            part = part.strip()
            if part.startswith('/\\ '):
                part = part[3:]
            if not part or ' = ' not in part:
                continue
            var, val = part.split(' = ', 1)
            val = re.split(r'\n\s*\n|\n=+', val, 1)[0]   # the last variable of the last state is followed by a trailer
            try:
                st[var.strip()] = parse_value(val.strip())
            except ValueError:
                st[var.strip()] = val.strip()
        out.append((action, args, st))
    return out


def simulate(module: str, cfg: str, name: str, *, num: int, depth: int, seed: int, timeout: int = 600, xss: str = '64m') -> list:
    """Run `tlc -simulate` and return the list of behaviours (each a list of (action, args, state))."""
    d = workdir(name + '-files')
    prefix = os.path.join(d, 'tr')
    res = run(
        module,
        cfg,
        name,
        workers=1,
        args=['-simulate', f'file={prefix},num={num}', '-depth', str(depth), '-seed', str(seed)],
        timeout=timeout,
        xss=xss,
    )
    if res.rc != 0 and 'Error' in res.out and 'violated' not in res.out and 'Finished' not in res.out:
        raise TLCError('simulate failed: ' + res.out[-2000:])
    out = []
    for f in sorted(os.listdir(d), key=lambda x: [int(t) if t.isdigit() else t for t in re.split(r'(\d+)', x)]):
        out.append(parse_sim_file(os.path.join(d, f)))
    shutil.rmtree(d, ignore_errors=True)
    return out


def dump_var(module: str, cfg: str, name: str, var: str, *, workers: int | str = 16, timeout: int = 3600, cfg_text: str | None = None):
    """Explore exhaustively with -dump and return (Result, [value of `var` in every distinct state])."""
    d = workdir(name + '-dump')
    path = os.path.join(d, 'g')
    if cfg_text is not None:
        cfg = os.path.join(d, 'gen.cfg')
        open(cfg, 'w').write(cfg_text)
    res = run(module, cfg, name, workers=workers, args=['-dump', path], timeout=timeout)
    vals = []
    cur = None
    try:
        with open(path + '.dump') as f:
            for line in f:
                if line.startswith('/\\ '):
                    if cur is not None:
                        vals.append(parse_value(' '.join(cur)))
                        cur = None
                    if line.startswith(f'/\\ {var} = '):
                        cur = [line[len(f'/\\ {var} = ') :].strip()]
                elif cur is not None:
                    if line.strip() == '' or line.startswith('State '):
                        vals.append(parse_value(' '.join(cur)))
                        cur = None
                    else:
                        cur.append(line.strip())
        if cur is not None:
            vals.append(parse_value(' '.join(cur)))
    finally:
        shutil.rmtree(d, ignore_errors=True)
    return res, vals


def dump_states(module: str, cfg: str, name: str, wanted: list[str], *, workers: int | str = 16, timeout: int = 3600, cfg_text: str | None = None):
    """Explore exhaustively with -dump; return (Result, [ {var: value} for every distinct state ]) for the wanted variables."""
    d = workdir(name + '-dump')
    path = os.path.join(d, 'g')
    if cfg_text is not None:
        cfg = os.path.join(d, 'gen.cfg')
        open(cfg, 'w').write(cfg_text)
    res = run(module, cfg, name, workers=workers, args=['-dump', path], timeout=timeout)
    states = []
    cur: dict = {}
    var = None
    buf: list[str] = []

    def flush():
        nonlocal var, buf
        if var is not None and var in wanted:
            cur[var] = parse_value(' '.join(buf))
        var, buf = None, []

    try:
        with open(path + '.dump') as f:
            for line in f:
                if line.startswith('State '):
                    flush()
                    if cur:
                        states.append(cur)
                    cur = {}
                elif line.startswith('/\\ '):
                    flush()
                    name_, _, val = line[3:].partition(' = ')
                    var, buf = name_.strip(), [val.strip()]
                elif line.strip():
                    buf.append(line.strip())
            flush()
            if cur:
                states.append(cur)
    finally:
        shutil.rmtree(d, ignore_errors=True)
    return res, states
