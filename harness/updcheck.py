"""C02 / C08 / C19: abstract UPDATEs enumerated by TLC (Gen_ExaUpdateIn), bytes from the TLA+ reference codec, fed to the
real Message.unpack / UpdateHandler / JSON encoder; the projection of what ExaBGP reports is judged by TLC
(Judge_ExaUpdateIn) against Outcome(u)."""

from __future__ import annotations

import asyncio
import ipaddress
import json
import os
import random

os.environ.setdefault('exabgp_log_enable', 'false')

from exabgp.bgp.message import Message, Notify, Open  # noqa: E402
from exabgp.bgp.message.direction import Direction  # noqa: E402
from exabgp.bgp.message.open.capability.capabilities import Capabilities  # noqa: E402
from exabgp.bgp.message.open.capability.negotiated import Negotiated  # noqa: E402
from exabgp.bgp.message.open.version import Version  # noqa: E402
from exabgp.bgp.message.update.attribute import Attribute  # noqa: E402
from exabgp.configuration.configuration import Configuration  # noqa: E402
from exabgp.reactor.api.response import Response  # noqa: E402
from exabgp.reactor.peer.context import PeerContext  # noqa: E402
from exabgp.reactor.peer.handlers import UpdateHandler  # noqa: E402
from exabgp.rib import RIB  # noqa: E402

from harness import bgpmsg, tlc  # noqa: E402
from harness.common import Check, seed  # noqa: E402

FAM = {'ipv4 unicast': 'v4u', 'ipv6 unicast': 'v6u'}
ORIGIN = {'igp': 0, 'egp': 1, 'incomplete': 2}


def no_dup(pairs):
    d = {}
    for k, v in pairs:
        if k in d:
            raise ValueError('duplicate key ' + k)
        d[k] = v
    return d


class Session:
    """One receiving session: a real Neighbor + Negotiated obtained from a real OPEN exchange."""

    _n = 0

    def __init__(self, asn4: bool, addpath: bool, ibgp: bool, extnh: bool = False, aigp: bool = False) -> None:
        Session._n += 1
        self.key = (asn4, addpath, ibgp, extnh)
        peer_as = 65000 if ibgp else 65001
        addr = f'127.{(Session._n // 62500) % 250}.{(Session._n // 250) % 250}.{2 + Session._n % 250}'
        text = f"""
neighbor {addr} {{
  router-id 1.2.3.4;
  local-address 127.0.0.1;
  local-as 65000;
  peer-as {peer_as};
  hold-time 90;
  adj-rib-in true;
  family {{ ipv4 unicast; ipv6 unicast; }}
  capability {{ add-path send/receive; route-refresh enable; graceful-restart disable; {'nexthop enable;' if extnh else ''} {'aigp enable;' if aigp else 'aigp disable;'} }}
  {'nexthop { ipv4 unicast ipv6; }' if extnh else ''}
}}
"""
        self.conf = Configuration([text], text=True)
        if not self.conf.reload():
            raise RuntimeError('harness configuration refused: %s' % getattr(self.conf, 'error', ''))
        self.neighbor = list(self.conf.neighbors.values())[0]
        self._spec = (asn4, addpath, extnh, peer_as)
        self.json = Response.JSON('6.0.0')
        self.negotiate()

    def negotiate(self) -> None:
        """a (new) session of this neighbour: Negotiated from a real OPEN exchange"""
        self.connect()
        self.exchange()

    def connect(self) -> None:
        """a new connection: its own Negotiated (what Protocol.__init__ does), nothing negotiated yet"""
        self.neg = Negotiated.make_negotiated(self.neighbor, Direction.IN)

    def exchange(self) -> None:
        asn4, addpath, extnh, peer_as = self._spec
        n = self.neighbor
        ours = Open.make_open(Version(4), n.session.local_as, n.hold_time, n.session.router_id, Capabilities().new(n, False))
        self.neg.sent(ours)
        caps = [bgpmsg.cap_mp(1, 1), bgpmsg.cap_mp(2, 1), bgpmsg.cap_rr()]
        if asn4:
            caps.append(bgpmsg.cap_asn4(peer_as))
        if addpath:
            caps.append(bgpmsg.cap_addpath([(1, 1, 3), (2, 1, 3)]))
        if extnh:
            caps.append(bgpmsg.cap(5, bytes([0, 1, 0, 1, 0, 2])))
        raw = bgpmsg.open_msg(peer_as, 90, '5.6.7.8', caps, one_param_per_cap=True)
        self.neg.received(Message.unpack(1, raw[19:], self.neg))
        assert bool(self.neg.asn4) == asn4, 'session setup: asn4'
        self.handler = UpdateHandler()
        self.ctx = PeerContext(proto=None, neighbor=n, negotiated=self.neg, refresh_enhanced=False, routes_per_iteration=25, peer_id='verif', stats={'receive-prefixes': 0, 'receive-withdraws': 0})

    def close(self) -> None:
        """the session ends: nothing of the harness keeps its Negotiated alive"""
        self.neg = None
        self.ctx = None


def _pfx(fam: str, item: dict) -> list:
    net = ipaddress.ip_network(item['nlri'])
    n = (net.prefixlen + 7) // 8
    pid = -1
    if 'path-information' in item:
        pid = int(ipaddress.IPv4Address(item['path-information']))
    return [fam, net.prefixlen, list(net.network_address.packed[:n]), pid]


def _asn(v: int) -> list:
    return [v // 65536, v % 65536]


def project_json(text: str) -> dict:
    obs = {'eor': 'none', 'announce': [], 'withdraw': [], 'hasAttrs': False, 'origin': -1, 'path': [], 'med': [], 'pref': [], 'atomic': False,
           'aggr': [], 'comm': [], 'originator': [], 'cluster': [], 'unknown': [], 'extra': []}
    doc = json.loads(text, object_pairs_hook=no_dup)
    msg = doc['neighbor']['message']
    if 'eor' in msg:
        obs['eor'] = FAM.get('%s %s' % (msg['eor']['afi'], msg['eor']['safi']), '?')
        return obs
    upd = msg['update']
    for fam, per_nh in upd.get('announce', {}).items():
        for nh, items in per_nh.items():
            nhb = list(ipaddress.ip_address(nh).packed) if nh not in ('null', 'no-nexthop') else []
            for it in items:
                obs['announce'].append(_pfx(FAM.get(fam, fam), it) + [nhb])
    for fam, items in upd.get('withdraw', {}).items():
        for it in items:
            obs['withdraw'].append(_pfx(FAM.get(fam, fam), it))
    at = upd.get('attribute')
    if at is not None:
        obs['hasAttrs'] = True
        for k, v in at.items():
            if k == 'origin':
                obs['origin'] = ORIGIN.get(v, 99)
            elif k == 'as-path':
                for idx in sorted(v, key=int):
                    seg = v[idx]
                    obs['path'].append([{'as-set': 1, 'as-sequence': 2, 'as-confed-sequence': 3, 'as-confed-set': 4}.get(seg['element'], 9), [_asn(a) for a in seg['value']]])
            elif k == 'next-hop':
                pass  # reported with the routes
            elif k == 'med':
                obs['med'] = list(int(v).to_bytes(4, 'big'))
            elif k == 'local-preference':
                obs['pref'] = list(int(v).to_bytes(4, 'big'))
            elif k == 'atomic-aggregate':
                obs['atomic'] = bool(v)
            elif k == 'aggregator':
                a, _, ip = str(v).partition(':')
                obs['aggr'] = [_asn(int(a)), list(ipaddress.ip_address(ip).packed)]
            elif k == 'community':
                obs['comm'] = [list(int(a).to_bytes(2, 'big') + int(b).to_bytes(2, 'big')) for a, b in v]
            elif k == 'originator-id':
                obs['originator'] = list(ipaddress.ip_address(v).packed)
            elif k == 'cluster-list':
                obs['cluster'] = [list(ipaddress.ip_address(x).packed) for x in v]
            elif k.startswith('attribute-0x') and isinstance(v, str) and v.startswith('0x') and int(k.split('-')[1], 16) < 256:
                try:
                    obs['unknown'] = [int(k.split('-')[1], 16), list(bytes.fromhex(v[2:]))]
                except ValueError:
                    obs['extra'].append(k)
            elif k in ('error', 'treat-as-withdraw', 'discard') or k.startswith('attribute-0xFFF'):
                obs['marker'] = k  # internal pseudo-attribute (treat-as-withdraw / discard marker): not a BGP attribute
            else:
                obs['extra'].append(k)
    return obs


def receive(sess: Session, raw: bytes, fresh_rib: bool = True) -> dict:
    """What ExaBGP makes of one UPDATE: JSON projection, Adj-RIB-In after it, or the error it raises."""
    n = sess.neighbor
    if fresh_rib:
        n.rib.incoming.clear()
    out = {'error': '', 'ribin': [], 'dropped': False}
    try:
        m = Message.unpack(2, memoryview(raw)[19:], sess.neg)
        if not m.IS_EOR and Attribute.CODE.INTERNAL_DISCARD in m.data.attributes:
            out['dropped'] = True  # Protocol.read_message turns the whole UPDATE into a NOP
        text = sess.json.update(n, 'receive', m if m.IS_EOR else m.data, b'', b'', sess.neg)
        out.update(project_json(text))
        if not out['dropped']:
            asyncio.run(sess.handler.handle_async(sess.ctx, m))
    except Notify as exc:
        out.update(project_json_empty())
        out['error'] = f'notify {exc.code}/{exc.subcode}'
    except Exception as exc:
        out.update(project_json_empty())
        out['error'] = 'exception ' + type(exc).__name__ + ': ' + str(exc)[:120]
    for r in n.rib.incoming.cached_routes():
        try:
            net = ipaddress.ip_network(str(r.nlri).split(' ')[0])
        except ValueError:
            continue
        nb = (net.prefixlen + 7) // 8
        pid = -1
        pi = getattr(r.nlri, 'path_info', None)
        if pi is not None and getattr(pi, '_packed', b''):
            pid = int.from_bytes(bytes(pi._packed), 'big')
        nh = list(r.nexthop.pack_ip()) if hasattr(r.nexthop, 'pack_ip') and str(r.nexthop) not in ('', 'no-nexthop') else []
        out['ribin'].append(['v4u' if net.version == 4 else 'v6u', net.prefixlen, list(net.network_address.packed[:nb]), pid, nh])
    return out


def project_json_empty() -> dict:
    return {'eor': 'none', 'announce': [], 'withdraw': [], 'hasAttrs': False, 'origin': -1, 'path': [], 'med': [], 'pref': [], 'atomic': False,
            'aggr': [], 'comm': [], 'originator': [], 'cluster': [], 'unknown': [], 'extra': []}


def gen_rows(ck: Check, module: str, width: int, label: str, invariants=('CodecSelfCheck',), extra_cfg: str = ''):
    cfg = f'SPECIFICATION GenSpec\nCONSTANT Width = {width}\n' + ''.join(f'INVARIANT {i}\n' for i in invariants) + extra_cfg + 'CHECK_DEADLOCK FALSE\n'
    res, states = tlc.dump_states(module, '', f'upd-{label}', ['u', 'bytes'], cfg_text=cfg, workers=16)
    ck.tlc(res, f'{module} {label}: abstract UPDATEs within {width} field changes of the base; invariant(s) {", ".join(invariants)}')
    if not res.ok:
        raise tlc.TLCError(f'{module}: ' + res.out[-2000:])
    return states


def judge(lines, module: str, label: str):
    path = os.path.join(tlc.WORK, f'updj-{label}.ndjson')
    with open(path, 'w') as f:
        for ln in lines:
            f.write(json.dumps(ln) + '\n')
    cfg = os.path.join(tlc.WORK, f'updj-{label}.cfg')
    open(cfg, 'w').write('SPECIFICATION JSpec\nINVARIANT Report\nCHECK_DEADLOCK FALSE\n')
    res = tlc.run(module, cfg, f'updj-{label}', workers=1, env={'TRACE_FILE': path}, xss='256m')
    verdict = [v for v in res.printed() if v[1] == 'verdict']
    os.unlink(path)
    if not verdict or verdict[-1][2] != len(lines):
        raise tlc.TLCError(f'{module} did not consume every line: ' + res.out[-2500:])
    return json.loads(verdict[-1][3]), res
