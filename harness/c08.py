"""C08 - malformed attributes never yield announced routes (RFC 7606)."""

from __future__ import annotations

import json
import random

from harness import updcheck
from harness.c02 import diff
from harness.common import Check, seed


def run(tier: str) -> int:
    ck = Check('C08', tier, 'model_checking')
    ck.cov['rule'] = (
        'cases = well-formed announcing UPDATEs (five base shapes, Width field changes) with exactly one attribute corrupted, for every '
        'attribute x form (one byte short, zero length, contradictory flags, invalid value, duplicate, length overrunning the attribute '
        'block) that applies, enumerated by TLC (Gen_ExaUpdateFault); bytes from the TLA+ reference codec; the JSON event, Adj-RIB-In '
        'or NOTIFICATION produced by the real code is judged by TLC against the RFC 7606 decision table (ExaUpdateIn!Action); '
        'distinct = distinct rows; every row is non-trivial (carries a fault)'
    )
    ck.assumptions += ['IPv4 NLRI and MP_REACH (IPv6, and IPv4 over IPv6 next hop) routes; iBGP and eBGP sessions (LOCAL_PREF/ORIGINATOR/CLUSTER_LIST differ)']
    rnd = random.Random(seed())
    states = updcheck.gen_rows(ck, 'Gen_ExaUpdateFault', 1 if tier == 'quick' else 2, 'c08' + tier[0], invariants=('OuterStructureOK',))
    limit = 6000 if tier == 'quick' else 60000
    ck.cov['exhaustive'] = len(states) <= limit
    if len(states) > limit:
        states = rnd.sample(states, limit)
    sessions, lines = {}, []
    for i, st in enumerate(states):
        u = st['u']
        key = (u['asn4'], u['addpath'], u['ibgp'], u['extnh'])
        if key not in sessions:
            sessions[key] = updcheck.Session(*key)
        # also: the corrupted UPDATE right behind a good announce of the same prefixes (the stale route must not survive as announced)
        obs = updcheck.receive(sessions[key], bytes(st['bytes']))
        lines.append({'id': i, 'u': u, 'obs': obs})
        ck.count(u)
        if i in (1, len(states) // 2):
            ck.sample({'u': diff(u), 'hex': bytes(st['bytes']).hex(), 'observed': {k: v for k, v in obs.items() if v not in ([], '', False, -1, 'none')}})
    bad, res = updcheck.judge(lines, 'Judge_ExaUpdateFault', 'c08' + tier[0])
    ck.tlc(res, f'Judge_ExaUpdateFault: {len(lines)} corrupted UPDATEs')
    ck.cov['traces_validated_against_impl'] = len(lines)
    for b in bad:
        ln = lines[b['id']]
        for clause in b['clauses']:
            f = ln['u']['fault']
            ck.violation({'clause': clause, 'attribute': f[0], 'form': f[1], 'ibgp': ln['u']['ibgp']},
                         f'{clause}: attribute {f[0]} corrupted as "{f[1]}" ({"iBGP" if ln["u"]["ibgp"] else "eBGP"}) in UPDATE = base with {diff(ln["u"])}; error={ln["obs"]["error"]!r}',
                         {'u': ln['u'], 'hex': bytes(states[b['id']]['bytes']).hex(), 'obs': ln['obs'], 'clause': clause})
    return ck.finish()


def replay(path: str) -> int:
    case = json.load(open(path))
    c = case['case']
    u = c['u']
    sess = updcheck.Session(u['asn4'], u['addpath'], u['ibgp'], u.get('extnh', False))
    obs = updcheck.receive(sess, bytes.fromhex(c['hex']))
    bad, _ = updcheck.judge([{'id': 0, 'u': u, 'obs': obs}], 'Judge_ExaUpdateFault', 'replay')
    print('observed:', {k: v for k, v in obs.items() if v not in ([], '', False, -1, 'none')})
    if any(c['clause'] in b['clauses'] for b in bad):
        print(f'VIOLATION property=C08 replay={path}')
        return 1
    print('replay: property held on this case')
    return 0
