"""C17 - configuration reload applies the difference, or nothing at all."""

from __future__ import annotations

import asyncio
import json
import random

from harness import systemcheck, tlc, updcheck
from harness.common import Check, seed
from harness.ribdrv import ATTRS, KEYS

OTHER_OK = """
neighbor 127.0.0.3 {
  router-id 1.2.3.4; local-address 127.0.0.1; local-as 65000; peer-as 65003;
  family { ipv4 unicast; }
  static { route 10.77.0.0/24 next-hop 192.0.2.1; }
}
"""
OTHER_BAD = OTHER_OK.replace('family { ipv4 unicast; }', 'family { ipv4 unicast; }\n  no-such-keyword yes;')


def static_of(cfg: dict, broken: bool = False) -> str:
    routes = []
    for k, a in cfg.items():
        if a == 'none':
            continue
        fam, ktext = KEYS[k]
        prefix, _, rest = ktext.partition(' ')
        routes.append(f'route {prefix} {ATTRS[a][fam]} {rest};')
    if broken:
        routes.append('route 10.66.0.0/24 next-hop ;')
    return 'static { ' + ' '.join(routes) + ' }' if routes else ''


LABELED = dict(keys=['k1', 'k7'], families='ipv4 unicast; ipv4 nlri-mpls;')       # the second configured route is the labeled key k7


class ReloadWorld(systemcheck.SystemWorld):
    def __init__(self, old: dict, rate_limit: bool, noarib: bool = False, labeled: bool = False) -> None:
        super().__init__({k: v for k, v in old.items() if v != 'none'}, rate_limit, tail=OTHER_OK, no_adj_rib_out=noarib, **(LABELED if labeled else {}))
        self.second_key = 'k7' if labeled else 'k2'
        r = self.reactor
        r.configuration = self.conf
        r._ips = []
        r.listener = None
        self.name = self.neighbor.name()

    def do_reload(self, new: dict, fault: str, changed: bool, also: str = 'none') -> None:
        from exabgp.reactor.loop import Reactor

        r = self.reactor
        r._peers = {self.name: self.peer}
        for key, nb in self.conf.neighbors.items():
            if key != self.name and key not in r._peers:
                from exabgp.reactor.peer.peer import Peer

                r._peers[key] = Peer(nb, r)
        before = self.cache()
        pending_before = bool(self.neighbor.rib.outgoing.pending())
        nb_before = dict(self.conf.neighbors)
        peer_nb = self.peer.neighbor
        if changed:
            self._fmt['hold'] = 30
        keep = dict(self._fmt)
        if also == 'families':
            self._fmt['families'] = 'ipv4 unicast;'
        if also == 'noarib':
            self._fmt['extra'] = self._fmt['extra'] + ' adj-rib-out false;'
            self._fmt['rr'] = 'disable'
        text = self.config_text(static_of(new, broken=(fault == 'syntax-in-this-neighbour')), OTHER_BAD if fault == 'syntax-in-other-neighbour' else OTHER_OK)
        if also != 'none':
            self._fmt = keep          # only the refused configuration carries the change
        self.conf._configurations = [text]
        restore = []
        if fault == 'file-vanished':
            self.conf._text = False
            self.conf._configurations = ['/nonexistent/verif/exabgp.conf']
            restore.append(lambda: setattr(self.conf, '_text', True))
        if fault == 'parser-exception':
            section = self.conf.neighbor
            orig = section.post

            def boom(*a, **k):
                section.post = orig
                raise RuntimeError('injected parser failure')

            section.post = boom
            restore.append(lambda: setattr(section, 'post', orig))
        try:
            result = bool(Reactor.reload(r) is True)
        except Exception as exc:  # a reload that raises is a failed reload that did not even report
            result = False
            self.slog('harness', name='reload raised ' + type(exc).__name__)
        finally:
            for f in restore:
                f()
        ok = fault == 'none'
        same = set(self.conf.neighbors.keys()) == set(nb_before.keys()) and all(self.conf.neighbors[k] is nb_before[k] for k in nb_before if k in self.conf.neighbors) and self.peer.neighbor is peer_nb
        if ok:
            # the neighbour object of the peer may have been replaced: follow it for the projections
            self.neighbor = self.conf.neighbors.get(self.name, self.neighbor)
            self.namer.neighbor = self.neighbor
        self.slog('reload', ok=ok, new={k: new.get(k, 'none') for k in self.KS}, result=result, before=before, cache=self.cache(), pending=bool(self.neighbor.rib.outgoing.pending()), pendingBefore=pending_before, same=same or ok)


async def direct(w: ReloadWorld, row: dict) -> None:
    new = {'k1': row['new1'], w.second_key: row['new2']}
    if row['up']:
        if not await w.establish():
            return
        await systemcheck.direct(w, [{'do': 'quiet'}])
    if row['api'] != 'none':
        w.op('Announce', 'k3', row['api'])
        if row['up']:
            await systemcheck.direct(w, [{'do': 'quiet'}])
    w.absorb()
    w.do_reload(new, row['fault'], row['changed'], row.get('also', 'none'))
    second = row.get('second', 'none')
    # the second reload: the good new configuration after a failed one, back to the old configuration after a successful one
    again = new if row['fault'] != 'none' else {'k1': row['old1'], w.second_key: row['new2'] if second == 'atonce-half' else row['old2']}
    if second in ('atonce', 'atonce-half'):
        w.do_reload(again, 'none', False)
    await asyncio.sleep(0.3)
    # (re-)establish until the session stays: a reload that changes the neighbour tears the next session down once (6/3)
    hold = 30 if (row['changed'] and row['fault'] == 'none') else None
    for _ in range(4):
        if w.peer.fsm.name() == 'ESTABLISHED' and w.remote is not None:
            await asyncio.sleep(0.6)
            if w.peer.fsm.name() == 'ESTABLISHED':
                break
        await w.establish(hold=hold)
        await asyncio.sleep(0.6)
    await systemcheck.direct(w, [{'do': 'quiet'}])
    if second == 'later':
        w.do_reload(again, 'none', False)
        await asyncio.sleep(0.3)
        for _ in range(3):
            if w.peer.fsm.name() == 'ESTABLISHED' and w.remote is not None:
                break
            await w.establish(hold=hold)
            await asyncio.sleep(0.6)
        await systemcheck.direct(w, [{'do': 'quiet'}])
    # the API keeps working after the reload, whatever its outcome
    w.op('Announce', 'k3' if 'k3' in w.KS else 'k1', 'y')
    await systemcheck.direct(w, [{'do': 'quiet'}])


def run_row(row: dict, tid: int):
    labeled = row.get('labeled', False)
    w = ReloadWorld({'k1': row['old1'], ('k7' if labeled else 'k2'): row['old2']}, rate_limit=False, noarib=row.get('noarib', False), labeled=labeled)

    async def d(world):
        await direct(world, row)

    w.run(d, horizon_ms=60_000)
    for ln in w.sys:
        ln['tid'] = tid
        for k, v in (('ok', True), ('new', {}), ('result', True), ('before', {}), ('pending', False), ('pendingBefore', False), ('same', True)):
            ln.setdefault(k, v)
    return w.sys


def run(tier: str) -> int:
    ck = Check('C17', tier, 'model_checking')
    ck.cov['rule'] = (
        'cases = rows (old configuration of two routes, new configuration, API-announced route, session up or down during the reload, session '
        'parameter changed or not, fault: none / syntax error in a later neighbour section / in this neighbour / file vanished / parser exception; a refused configuration may also change the families or adj-rib-out of the running neighbour) '
        'enumerated by TLC (Gen_ExaReload); each is run on the real Configuration + Reactor.reload + Peer under a virtual clock against a remote '
        'speaker; TLC (Obs_ExaSystem) judges the peer table after the drain against new configuration + API routes (ReloadDelta) and, for a failed '
        'reload, that neighbours, Adj-RIB-Out and queue are unchanged and the API still works (ReloadAtomic); distinct = distinct rows; '
        'non-trivial = old and new configuration differ or a fault is injected'
    )
    ck.assumptions += ['two neighbours (the one under test + one more, whose section carries the later syntax error); routes k1 k2 configured, k3 through the API']
    rnd = random.Random(seed())
    states = updcheck.gen_rows(ck, 'Gen_ExaReload', 0, 'c17' + tier[0], invariants=('TableOK',))
    # adj-rib-out false changes what a reconnection re-sends (nothing is kept, by design): that configuration is only explored for
    # reloads on an established, unchanged session without API routes
    rows = [st['u'] for st in states if not st['u']['noarib'] or (st['u']['api'] == 'none' and st['u']['up'] and not st['u']['changed'] and st['u']['fault'] == 'none')]
    limit = 420 if tier == 'quick' else 4000
    ck.cov['exhaustive'] = len(rows) <= limit
    if len(rows) > limit:
        # every fault x up/down x changed at least 6 times, then seeded sample
        rnd.shuffle(rows)
        by = {}
        for r in rows:
            by.setdefault((r['fault'], r['up'], r['changed'], r['noarib'], r['second'], r.get('also', 'none'), r['api'] if r.get('also', 'none') != 'none' else ''), []).append(r)
        keep = [r for v in by.values() for r in v[:3]]
        rest = [r for r in rows if r not in keep]
        rows = keep + rest[: max(0, limit - len(keep))]
    # the same reloads where the second configured route is a labeled one whose values x / y differ in the label only (no API route:
    # the API key k3 is an IPv6 route, and this session speaks ipv4 unicast and ipv4 nlri-mpls)
    lab_rows = [dict(r, labeled=True) for r in rows if r['api'] == 'none' and not r['noarib'] and r['old2'] != r['new2'] and 'none' not in (r['old2'], r['new2'])]
    lab_rows = lab_rows[: 40 if tier == 'quick' else 400]
    lines, meta = [], {}
    lab_lines = []
    for tid, row in enumerate(rows + lab_rows):
        ln = run_row(row, tid)
        (lab_lines if row.get('labeled') else lines).extend(ln)
        meta[tid] = row
        ck.count(row, nontrivial=(row['old1'], row['old2']) != (row['new1'], row['new2']) or row['fault'] != 'none')
        if tid in (2, len(rows) // 2):
            ck.sample({'row': row, 'log': [{k: v for k, v in e.items() if v not in ('', [], {}) and k not in ('tid',)} for e in ln[:24]]})
    bad, res = systemcheck.judge(lines, 'c17' + tier[0])
    ck.tlc(res, f'Obs_ExaSystem: {len(lines)} lines of {len(rows)} reload scenarios')
    if lab_lines:
        bad2, res2 = systemcheck.judge(lab_lines, 'c17l' + tier[0], keys=('k1', 'k7'), fams=('v4u', 'v4l'))
        ck.tlc(res2, f'Obs_ExaSystem: {len(lab_lines)} lines of {len(lab_rows)} reload scenarios with a labeled route')
        bad = bad + bad2
    ck.cov['traces_validated_against_impl'] = len(rows)
    for b in bad:
        row = meta[b['tid']]
        for clause in b['clauses']:
            name = clause.replace('C11-S3', 'C17-after-reload').replace('C11-S5', 'C17-after-reload').replace('C11-S1', 'C17-after-reload').replace('C11-', 'C17-via-')
            fp = {'clause': name, 'fault': row['fault'], 'up': row['up'], 'changed': row['changed'], 'second': row.get('second', 'none'), 'also': row.get('also', 'none')}
            ck.violation(fp, f'{name} ({b["e"]}): old={{k1:{row["old1"]},k2:{row["old2"]}}} new={{k1:{row["new1"]},k2:{row["new2"]}}} api={row["api"]} up={row["up"]} changed={row["changed"]} fault={row["fault"]} second={row.get("second")} also={row.get("also")}', {'row': row, 'clause': clause})
    return ck.finish()


def replay_file(path: str) -> int:
    c = json.load(open(path))['case']
    lines = run_row(c['row'], 0)
    bad, _ = systemcheck.judge(lines, 'replay', **({'keys': ('k1', 'k7'), 'fams': ('v4u', 'v4l')} if c['row'].get('labeled') else {}))
    for ln in lines:
        print({k: v for k, v in ln.items() if v not in ('', [], {}) and k != 'tid'})
    if any(c['clause'] in b['clauses'] for b in bad):
        print(f'VIOLATION property=C17 replay={path}')
        return 1
    print('replay: property held on this case')
    return 0
