"""C20 - healthcheck announces and withdraws with rise/fall hysteresis."""

from __future__ import annotations

import io
import itertools
import json
import os
import random
import sys

os.environ.setdefault('exabgp_log_enable', 'false')

from harness import tlc
from harness.common import Check, seed

IPS = ['192.0.2.10/32', '192.0.2.11/32']
CONSTS = "  NIps = 2\n  UpMetric = 100\n  DownMetric = 1000\n  DisabledMetric = 500\n  Increase = 10\n"


def cfg_text(rise, fall, wod, deb, max_rounds, spec, extra):
    return (f'SPECIFICATION {spec}\nCONSTANTS\n  Rise = {rise}\n  Fall = {fall}\n  WithdrawOnDown = {"TRUE" if wod else "FALSE"}\n'
            f'  Debounce = {"TRUE" if deb else "FALSE"}\n  MaxRounds = {max_rounds}\n' + CONSTS + extra + 'CHECK_DEADLOCK FALSE\n')


class Stop(Exception):
    pass


def replay(hist, rise, fall, wod, deb, conf):
    """Run the real healthcheck.loop() over the scripted inputs; -> list of (kind, input, lines written)"""
    import exabgp.application.healthcheck as hc

    argv = ['healthcheck', '--no-ack', '--no-syslog', '--no-ip-setup', '--command', '/bin/true', '--disable', '/nonexistent/verif-disable',
            '--rise', str(rise), '--fall', str(fall), '--up-metric', '100', '--down-metric', '1000', '--disabled-metric', '500', '--increase', '10',
            '--community', '65000:1', '--disabled-community', '65000:9', '--as-path', '65001 65002', '--down-as-path', '65001 65001',
            '--interval', '5', '--fast-interval', '1']
    for ip in IPS:
        argv += ['--ip', ip]
    if wod:
        argv.append('--withdraw-on-down')
    if deb:
        argv.append('--debounce')
    saved = (sys.argv, sys.stdout, hc.check, hc.time.sleep, hc.os.path.exists, hc.signal.signal)
    sys.argv = argv
    try:
        options = hc.parse()
    finally:
        sys.argv = saved[0]
    script = [h for h in hist if not h.get('exit')]
    do_exit = any(h.get('exit') for h in hist)
    pos = {'i': 0}
    buf = io.StringIO()
    rounds = []
    mark = {'n': 0}

    def fake_exists(path):
        if path == '/nonexistent/verif-disable':
            return bool(script[pos['i']]['disabled']) if pos['i'] < len(script) else False
        return saved[4](path)

    def fake_check(cmd, timeout):
        return bool(script[pos['i']]['ok'])

    def fake_sleep(t):
        text = buf.getvalue()
        rounds.append(('Round', script[pos['i']], text[mark['n']:].splitlines()))
        mark['n'] = len(text)
        pos['i'] += 1
        if pos['i'] >= len(script):
            if do_exit:
                raise KeyboardInterrupt
            raise Stop

    hc.check, hc.time.sleep, hc.os.path.exists = fake_check, fake_sleep, fake_exists
    hc.signal.signal = lambda *a, **k: None
    sys.stdout = buf
    try:
        if script:
            hc.loop(options)
        elif do_exit:
            pass
    except Stop:
        pass
    finally:
        sys.stdout = saved[1]
        hc.check, hc.time.sleep, hc.os.path.exists, hc.signal.signal = saved[2], saved[3], saved[4], saved[5]
    if do_exit and script:
        text = buf.getvalue()
        rounds.append(('Exit', {}, text[mark['n']:].splitlines()))
    return rounds


def abstract(line: str, conf) -> tuple:
    """-> ([verb, ip index, med, tag], valid) using the real route text parser"""
    for verb in ('announce', 'withdraw'):
        p = f'peer * {verb} '
        if line.startswith(p):
            text = line[len(p):]
            try:
                routes = conf.parse_route_text(text)
            except Exception:
                routes = None
            if not routes:
                return [verb, 0, 0, 'invalid'], False
            r = routes[0]
            ip = str(r.nlri).split(' ')[0]
            idx = IPS.index(ip) + 1 if ip in IPS else 0
            doc = json.loads('{' + r.attributes.json() + '}') if verb == 'announce' else {}
            med = int(doc.get('med', 0))
            comm = doc.get('community', [])
            path = [v for seg in doc.get('as-path', {}).values() for v in seg.get('value', [])]
            tag = {('65000:1', (65001, 65002)): 'up', ('65000:9', (65001, 65001)): 'down', ('65000:9', (65001, 65002)): 'disabled'}.get(
                (':'.join(str(x) for x in comm[0]) if comm else '', tuple(path)), 'none' if verb == 'withdraw' else '?')
            nh_ok = 'next-hop self' in text
            return [verb, idx, med if verb == 'announce' else 0, tag if verb == 'announce' else 'none'], nh_ok
    return ['?', 0, 0, 'invalid'], False


def run(tier: str) -> int:
    from exabgp.configuration.configuration import Configuration

    ck = Check('C20', tier, 'model_checking')
    ck.cov['rule'] = (
        'cases = every history of check results / disable-file states / exit of <= MaxRounds iterations (state dump of ExaHealth after TLC '
        'checked RiseHysteresis, FallHysteresis and WithdrawOnExit on it) for each configuration (rise, fall in 1..3, withdraw-on-down, debounce), '
        'replayed into the real healthcheck.loop() with scripted check(), sleep() and disable file; every line written is parsed by the real '
        'route parser and TLC (Trace_ExaHealth) checks, iteration by iteration, that the commands equal Emits(state) and that the hysteresis holds; '
        'distinct = distinct histories per configuration; non-trivial = at least two iterations'
    )
    ck.assumptions += ['2 IPs, metrics 100/1000/500 + increase 10, communities/as-paths per state; --no-ack; no IP setup; the check command and clock are scripted']
    conf = Configuration([])
    rnd = random.Random(seed())
    combos = list(itertools.product((1, 2, 3), (1, 2, 3), (False, True), (False, True)))
    if tier == 'quick':
        combos = [(2, 3, False, False), (3, 3, False, False), (1, 1, False, False), (3, 2, True, False), (2, 2, False, True), (3, 1, True, True)]
        max_rounds = 5
    else:
        max_rounds = 6
    for rise, fall, wod, deb in combos:
        label = f'c20-{rise}{fall}{int(wod)}{int(deb)}'
        res, states = tlc.dump_states('ExaHealth', '', label, ['hist'], cfg_text=cfg_text(rise, fall, wod, deb, max_rounds, 'Spec', 'INVARIANT WithdrawOnExit\nPROPERTY RiseHysteresis\nPROPERTY FallHysteresis\n'), workers=8)
        ck.tlc(res, f'ExaHealth rise={rise} fall={fall} withdraw-on-down={wod} debounce={deb}: all histories of <= {max_rounds} iterations')
        if not res.ok:
            raise tlc.TLCError('ExaHealth: ' + res.out[-1500:])
        hists = [st['hist'] for st in states if st['hist']]
        # keep maximal histories only (every prefix is replayed on the way) plus the ones ending with exit
        limit = 700 if tier == 'quick' else 6000
        full = [h for h in hists if len(h) == max_rounds or h[-1].get('exit')]
        if len(full) > limit:
            full = rnd.sample(full, limit)
        lines = []
        for tid, h in enumerate(full):
            rounds = replay(h, rise, fall, wod, deb, conf)
            lines.append({'tid': tid, 'e': 'Begin', 'ok': False, 'disabled': False, 'out': [], 'valid': True})
            for kind, inp, written in rounds:
                outs, valid = [], True
                for ln in written:
                    o, v = abstract(ln, conf)
                    outs.append(o)
                    valid = valid and v
                lines.append({'tid': tid, 'e': kind, 'ok': bool(inp.get('ok', False)), 'disabled': bool(inp.get('disabled', False)), 'out': outs, 'valid': valid})
            ck.count({'cfg': [rise, fall, wod, deb], 'hist': h}, nontrivial=len(h) >= 2)
            if tid == 3 and (rise, fall) in ((2, 3), (3, 3)):
                ck.sample({'config': {'rise': rise, 'fall': fall, 'withdraw_on_down': wod, 'debounce': deb}, 'inputs': h, 'written': [r[2] for r in rounds]})
        path = os.path.join(tlc.WORK, label + '.ndjson')
        with open(path, 'w') as f:
            for ln in lines:
                f.write(json.dumps(ln) + '\n')
        cfgp = os.path.join(tlc.WORK, label + '.cfg')
        open(cfgp, 'w').write(cfg_text(rise, fall, wod, deb, max_rounds + 2, 'TSpec', 'INVARIANT Report\n'))
        jres = tlc.run('Trace_ExaHealth', cfgp, label + 'j', workers=1, env={'TRACE_FILE': path})
        os.unlink(path)
        verdict = [v for v in jres.printed() if v[1] == 'verdict']
        if not verdict or verdict[-1][2] != len(lines):
            raise tlc.TLCError('Trace_ExaHealth did not consume the whole log: ' + jres.out[-2500:])
        ck.tlc(jres, f'Trace_ExaHealth {label}: {len(lines)} iterations of {len(full)} runs of the real loop()')
        ck.cov['traces_validated_against_impl'] = ck.cov.get('traces_validated_against_impl', 0) + len(full)
        for b in json.loads(verdict[-1][3]):
            h = full[b['tid']]
            for clause in b['clauses']:
                ck.violation({'clause': clause, 'rise': rise, 'fall': fall, 'withdraw_on_down': wod, 'debounce': deb},
                             f'{clause}: rise={rise} fall={fall} withdraw-on-down={wod} debounce={deb} inputs={["D" if x.get("disabled") else ("X" if x.get("exit") else ("S" if x["ok"] else "F")) for x in h]}',
                             {'hist': h, 'cfg': [rise, fall, wod, deb], 'clause': clause})
    ck.cov['exhaustive'] = True
    return ck.finish()


def replay_file(path: str) -> int:
    from exabgp.configuration.configuration import Configuration

    case = json.load(open(path))['case']
    rise, fall, wod, deb = case['cfg']
    for kind, inp, written in replay(case['hist'], rise, fall, wod, deb, Configuration([])):
        print(kind, inp, written)
    print('re-run ./check C20 to have TLC judge it')
    return 0


