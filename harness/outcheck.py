"""C01 / C09: routes expressed as text are parsed and encoded by the real code for sessions negotiated through real OPENs;
the emitted bytes are decoded and judged by TLC (ExaWire + ExaUpdateOut)."""

from __future__ import annotations

import os

os.environ.setdefault('exabgp_log_enable', 'false')

from exabgp.bgp.message import Message, Open  # noqa: E402
from exabgp.bgp.message.direction import Direction  # noqa: E402
from exabgp.bgp.message.open.capability.capabilities import Capabilities  # noqa: E402
from exabgp.bgp.message.open.capability.negotiated import Negotiated  # noqa: E402
from exabgp.bgp.message.open.version import Version  # noqa: E402
from exabgp.bgp.message.update.collection import RoutedNLRI, UpdateCollection  # noqa: E402
from exabgp.configuration.configuration import Configuration  # noqa: E402

from harness import bgpmsg  # noqa: E402

LOCAL4 = 4200000001


class OutSession:
    _n = 0

    def __init__(self, ibgp: bool, local4: bool, pasn4: bool, addpath: bool, ext: bool, extnh: bool = False, families='ipv4 unicast; ipv6 unicast;', second: bool = False, peer_mp=((1, 1), (2, 1))) -> None:
        OutSession._n += 1
        local_as = LOCAL4 if local4 else 65000
        peer_as = local_as if ibgp else 65001
        addr = f'127.1.{OutSession._n % 250}.{2 + OutSession._n // 250}'
        other = f"""
neighbor 127.2.{OutSession._n % 250}.{2 + OutSession._n // 250} {{
  router-id 1.2.3.4;
  local-address 127.0.0.1;
  local-as {local_as};
  peer-as {peer_as};
  family {{ {families} }}
}}
""" if second else ''
        text = other + f"""
neighbor {addr} {{
  router-id 1.2.3.4;
  local-address {'127.0.0.9' if second else '127.0.0.1'};
  local-as {local_as};
  peer-as {peer_as};
  hold-time 90;
  family {{ {families} }}
  capability {{ add-path send/receive; route-refresh enable; graceful-restart disable; extended-message enable; {'nexthop enable;' if extnh else ''} }}
  {'nexthop { ipv4 unicast ipv6; }' if extnh else ''}
}}
"""
        self.conf = Configuration([text], text=True)
        if not self.conf.reload():
            raise RuntimeError('harness configuration refused: %s' % getattr(self.conf, 'error', ''))
        ns = list(self.conf.neighbors.values())
        self.first = ns[0] if second else None          # the neighbour the shared route object is resolved for first
        n = self.neighbor = ns[-1]
        self.neg = Negotiated.make_negotiated(n, Direction.OUT)
        ours = Open.make_open(Version(4), n.session.local_as, n.hold_time, n.session.router_id, Capabilities().new(n, False))
        self.neg.sent(ours)
        caps = [bgpmsg.cap_mp(a, b) for a, b in peer_mp] + [bgpmsg.cap_rr()]
        if pasn4:
            caps.append(bgpmsg.cap_asn4(peer_as))
        if addpath:
            caps.append(bgpmsg.cap_addpath([(1, 1, 3), (2, 1, 3)]))
        if ext:
            caps.append(bgpmsg.cap_extmsg())
        if extnh:
            caps.append(bgpmsg.cap(5, bytes([0, 1, 0, 1, 0, 2])))
        raw = bgpmsg.open_msg(peer_as if (pasn4 or peer_as < 65536) else 23456, 90, '5.6.7.8', caps, one_param_per_cap=True)
        self.neg.received(Message.unpack(1, raw[19:], self.neg))
        assert bool(self.neg.asn4) == pasn4 and int(self.neg.msg_size) == (65535 if ext else 4096)

    def encode(self, texts: list[str], withdraws: list[str] = ()) -> list[bytes]:
        """Parse route texts (what the configuration file / API take) and encode them as one UpdateCollection per attribute set."""
        groups: dict = {}
        order = []
        for t in texts:
            parsed = self.conf.parse_route_text(t)
            if not parsed:
                raise ValueError('route text refused: ' + t)
            if self.first is not None:
                self.first.resolve_self(parsed[0])      # what Configuration.announce_route does for the first matching peer
            r = self.neighbor.resolve_self(parsed[0])
            k = r.attributes.index()
            if k not in groups:
                groups[k] = (r.attributes, [], [])
                order.append(k)
            groups[k][1].append(RoutedNLRI(r.nlri, r.nexthop))
        wd = []
        for t in withdraws:
            parsed = self.conf.parse_route_text(t)
            if not parsed:
                raise ValueError('route text refused: ' + t)
            wd.append(parsed[0])
        out = []
        for i, k in enumerate(order):
            attrs, ann, _ = groups[k]
            out += list(UpdateCollection(ann, [w.nlri for w in wd] if i == 0 else [], attrs).messages(self.neg, True))
        if not order and wd:
            out += list(UpdateCollection([], [w.nlri for w in wd], wd[0].attributes).messages(self.neg, True))
        return out


PFX = {('v4u', 'a'): '10.0.1.0/24', ('v4u', 'b'): '10.9.128.0/17', ('v4u', 'def'): '0.0.0.0/0', ('v6u', 'a'): '2001:db8:3::/48', ('v6u', 'b'): '2001:db8:5:1::/64', ('v6u', 'def'): '::/0'}


def route_text(u: dict) -> str:
    t = ['route', PFX[(u['fam'], u['pfx'])]]
    if u['fam'] == 'v6u':
        t += ['next-hop', '2001:db8::1']
    else:
        t += ['next-hop', 'self' if u['nh'] == 'self' else '192.0.2.1']
    if u['pid'] == 'seven':
        t += ['path-information', '0.0.0.7']
    if u['origin'] != 'none':
        t += ['origin', u['origin']]
    if u['aspath'] != 'none':
        t += ['as-path', {'short': '[ 65010 65020 ]', 'four': '[ 65010 4200000000 65536 ]', 'set': '[ 65010 ] ( 65020 65030 )', 'fourset': '[ 65010 4200000000 ] ( 65030 65040 )'}[u['aspath']]]
    if u['med'] != 'none':
        t += ['med', {'ten': '10', 'max': '4294967295'}[u['med']]]
    if u['pref'] != 'none':
        t += ['local-preference', '200']
    if u['atomic']:
        t += ['atomic-aggregate']
    if u['aggr'] != 'none':
        t += ['aggregator', '( %s:10.0.0.9 )' % {'two': '65010', 'four': '4200000000'}[u['aggr']]]
    if u['comm'] != 'none':
        t += ['community', {'one': '[ 65000:1 ]', 'two': '[ 65000:1 no-export ]'}[u['comm']]]
    if u['orig']:
        t += ['originator-id', '10.0.0.1', 'cluster-list', '[ 10.0.0.2 ]']
    return ' '.join(t)
