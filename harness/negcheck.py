"""C07: rows (our configuration, peer OPEN) enumerated by TLC (Gen_ExaNegotiate) are executed on the real
Configuration / Capabilities / Open / Negotiated code; TLC (Judge_ExaNegotiate) evaluates the RFC function on each row
and compares."""

from __future__ import annotations

import json
import os
import random

os.environ.setdefault('exabgp_log_enable', 'false')

from exabgp.bgp.message import Message, Notify, Open  # noqa: E402
from exabgp.bgp.message.direction import Direction  # noqa: E402
from exabgp.bgp.message.open.capability import REFRESH  # noqa: E402
from exabgp.bgp.message.open.capability.capabilities import Capabilities  # noqa: E402
from exabgp.bgp.message.open.capability.negotiated import Negotiated  # noqa: E402
from exabgp.bgp.message.open.version import Version  # noqa: E402
from exabgp.configuration.configuration import Configuration  # noqa: E402
from exabgp.rib import RIB  # noqa: E402

from harness import tlc  # noqa: E402
from harness.common import Check, seed  # noqa: E402

FAMTEXT = {(1, 1): 'ipv4 unicast', (2, 1): 'ipv6 unicast', (1, 2): 'ipv4 multicast'}
ADDPATH = {0: 'disable', 1: 'receive', 2: 'send', 3: 'send/receive'}


def asn(pair) -> int:
    return pair[0] * 65536 + pair[1]


def peer_as_expected(row) -> int:
    return asn(row['localAs']) if row['ibgp'] else 65001


def config_text(row) -> str:
    fams = sorted(tuple(f) for f in row['fams'])
    family = 'all;' if row['big'] else ' '.join(FAMTEXT[f] + ';' for f in fams)
    extra = ''
    if row['big']:
        extra = 'host-name %s; domain-name %s;' % ('h' * 60, 'd' * 60 + '.example')
    return f"""
neighbor 127.0.0.2 {{
  router-id 1.2.3.4;
  local-address 127.0.0.1;
  local-as {asn(row['localAs'])};
  peer-as {peer_as_expected(row)};
  hold-time {row['hold']};
  {extra}
  family {{ {family} }}
  capability {{
    asn4 {'enable' if row['asn4'] else 'disable'};
    add-path {ADDPATH[row['addpath']]};
    extended-message {'enable' if row['extmsg'] else 'disable'};
    route-refresh {'enable' if row['rr'] else 'disable'};
    graceful-restart {'120' if row['big'] else 'disable'};
  }}
}}
"""


def clean_row(row) -> dict:
    out = {}
    for k, v in row.items():
        if isinstance(v, dict) and '__set__' in v:
            out[k] = sorted(v['__set__'])
        else:
            out[k] = v
    return out


def execute(row, peer_bytes) -> dict:
    RIB._cache.clear()
    conf = Configuration([config_text(row)], text=True)
    if not conf.reload():
        raise RuntimeError('harness configuration refused: %s\n%s' % (getattr(conf, 'error', ''), config_text(row)))
    neighbor = list(conf.neighbors.values())[0]
    neg = Negotiated.make_negotiated(neighbor, Direction.OUT)
    # what Protocol.new_open does
    ours = Open.make_open(Version(4), neighbor.session.local_as, neighbor.hold_time, neighbor.session.router_id, Capabilities().new(neighbor, False))
    raw = ours.pack_message(neg)
    neg.sent(ours)
    roundtrip = False
    try:
        again = Message.unpack(1, raw[19:], neg)
        roundtrip = again.pack_message(neg) == raw
    except Exception:
        roundtrip = False
    refused = [0, 0]
    obs = {'families': [], 'asn4': False, 'localAs': [0, 0], 'peerAs': [0, 0], 'apSend': [], 'apRecv': [], 'msgSize': 0, 'refresh': 'absent', 'hold': 0}
    crash = ''
    try:
        received = Message.unpack(1, memoryview(bytes(peer_bytes))[19:], neg)
        neg.received(received)
        err = neg.validate(neighbor)
        if err is not None:
            refused = [err[0], err[1]]
        else:
            fams = [[int(a), int(s)] for a, s in neg.families]
            obs = {
                'families': fams,
                'asn4': bool(neg.asn4),
                'localAs': [int(neg.local_as) // 65536, int(neg.local_as) % 65536],
                'peerAs': [int(neg.peer_as) // 65536, int(neg.peer_as) % 65536],
                'apSend': [f for f in fams if neg.addpath.send(*neg.families[fams.index(f)])],
                'apRecv': [f for f in fams if neg.addpath.receive(*neg.families[fams.index(f)])],
                'msgSize': int(neg.msg_size),
                'refresh': {REFRESH.ABSENT: 'absent', REFRESH.NORMAL: 'normal', REFRESH.ENHANCED: 'enhanced'}.get(neg.refresh, str(neg.refresh)),
                'hold': int(neg.holdtime),
            }
    except Notify as exc:
        refused = [exc.code, exc.subcode]
    except Exception as exc:  # anything else escaping is reported as refusal 0/255 with the exception name
        refused = [255, 255]
        crash = type(exc).__name__ + ': ' + str(exc)
    return {'our': list(raw[19:]), 'roundtrip': roundtrip, 'refused': refused, 'neg': obs, 'crash': crash}


def run_table(ck: Check, width: int, limit: int, label: str) -> None:
    cfg = f'SPECIFICATION GenSpec\nCONSTANT Width = {width}\nINVARIANT PeerBytesParse\nINVARIANT NoOneSidedAddPath\nCHECK_DEADLOCK FALSE\n'
    res, states = tlc.dump_states('Gen_ExaNegotiate', '', f'neg-{label}', ['row', 'peer'], cfg_text=cfg)
    ck.tlc(res, f'Gen_ExaNegotiate {label}: rows = Base with <= {width} fields changed; invariants PeerBytesParse, NoOneSidedAddPath')
    if not res.ok:
        raise tlc.TLCError('Gen_ExaNegotiate: ' + res.out[-1500:])
    rnd = random.Random(seed())
    ck.cov['exhaustive'] = len(states) <= limit
    if len(states) > limit:
        states = rnd.sample(states, limit)
    lines = []
    for i, st in enumerate(states):
        row = clean_row(st['row'])
        out = execute(row, bytes(st['peer']))
        lines.append({'id': i, 'row': row, **{k: out[k] for k in ('our', 'roundtrip', 'refused', 'neg')}})
        ck.count(row, nontrivial=row != clean_row(states[0]['row']))
        if i in (1, len(states) // 2):
            ck.sample({'row': row, 'peer_open_hex': bytes(st['peer']).hex(), 'our_open_hex': bytes(out['our']).hex(), 'refused': out['refused'], 'negotiated': out['neg']})
        if out['crash']:
            ck.violation({'clause': 'C07-open-handling-raised', 'what': out['crash'].split(':')[0], 'changed': _diff(row)}, f'handling the peer OPEN raised {out["crash"]} for row {_diff(row)}', {'row': row, 'peer': bytes(st['peer']).hex()})
    path = os.path.join(tlc.WORK, f'neg-{label}.ndjson')
    with open(path, 'w') as f:
        for ln in lines:
            f.write(json.dumps(ln) + '\n')
    jres = tlc.run('Judge_ExaNegotiate', 'Judge_ExaNegotiate.cfg', f'negj-{label}', workers=1, env={'TRACE_FILE': path}, xss='256m')
    verdict = [v for v in jres.printed() if v[1] == 'verdict']
    os.unlink(path)
    if not verdict or verdict[-1][2] != len(lines):
        raise tlc.TLCError('Judge_ExaNegotiate did not consume every row: ' + jres.out[-2500:])
    ck.tlc(jres, f'Judge_ExaNegotiate {label}: {len(lines)} executed rows')
    ck.cov['traces_validated_against_impl'] = ck.cov.get('traces_validated_against_impl', 0) + len(lines)
    for b in json.loads(verdict[-1][3]):
        row = lines[b['id']]['row']
        for clause in b['clauses']:
            fp = {'clause': clause, 'changed': _diff(row)}
            ck.violation(fp, f'{clause}: row differs from the base row in {_diff(row)}; observed refused={lines[b["id"]]["refused"]} negotiated={lines[b["id"]]["neg"]}', {'row': row, 'clause': clause})


BASE = None


def _diff(row) -> dict:
    base = {'fams': [[1, 1], [2, 1]], 'localAs': [0, 65000], 'ibgp': False, 'asn4': True, 'addpath': 3, 'extmsg': True, 'rr': True, 'hold': 90, 'big': False,
            'pVersion': 4, 'pAsOk': True, 'pAsn4': True, 'pFams': [[1, 1], [2, 1]], 'pAddpath': 3, 'pExtmsg': True, 'pRR': 'both', 'pHold': 9, 'pRid': [5, 6, 7, 8],
            'pForm': 'each', 'pDup': False, 'pUnknown': False}
    return {k: v for k, v in row.items() if base.get(k) != v}
