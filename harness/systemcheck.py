"""C11 at peer level: the real Peer + its real OutgoingRIB against a scripted remote speaker that cuts the connection
at chosen points; what the remote speaker receives on every session is judged by TLC (Obs_ExaSystem)."""

from __future__ import annotations

import asyncio
import json
import os
import random

from harness import bgpmsg, tlc
from harness.common import Check, seed
from harness.peerdrv import PeerWorld
from harness.ribdrv import ATTRS, KEYS, RibWorld

FIELDS = {'tid': 0, 'e': '', 'name': '', 'k': '', 'a': '', 'fam': '', 'ann': [], 'wd': [], 'cache': {}, 'hascache': True, 'cfg': {}}
KS = ['k1', 'k2', 'k3']
FAMS = ['v4u', 'v6u']


class SystemWorld(PeerWorld):
    def __init__(self, configured: dict, rate_limit: bool, tail: str = '', no_adj_rib_out: bool = False, keys=None, **kw) -> None:
        self.KS = list(keys or KS)
        static = ''
        if configured:
            routes = []
            for k, a in configured.items():
                fam, ktext = KEYS[k]
                prefix, _, rest = ktext.partition(' ')
                routes.append(f'route {prefix} {ATTRS[a][fam]} {rest};')
            static = 'static { ' + ' '.join(routes) + ' }'
        self.has_cache = not no_adj_rib_out
        extra = ('rate-limit 100;' if rate_limit else '') + (' adj-rib-out false;' if no_adj_rib_out else '')
        super().__init__(static=static, extra=extra, tail=tail, route_refresh=not no_adj_rib_out, **kw)
        self.namer = RibWorld(conf=self.conf, neighbor=self.neighbor, fresh_rib=False)
        self.sys: list[dict] = []
        self.seen = 0
        self.slog('Begin', cache=self.cache(), cfg={k: configured.get(k, 'none') for k in self.KS})

    def cache(self) -> dict:
        c = self.namer.cache_table()
        return {k: c[k] for k in self.KS}

    def slog(self, e: str, **kw) -> None:
        d = dict(FIELDS)
        d['e'] = e
        d['hascache'] = getattr(self, 'has_cache', True)
        d.update(kw)
        self.sys.append(d)

    def log(self, e: str, **kw) -> None:  # intercept the FSM to mark sessions
        super().log(e, **kw)
        if e == 'fsm' and kw.get('to') == 'ESTABLISHED':
            self.slog('up', cache=self.cache())
        elif e == 'fsm' and kw.get('frm') == 'ESTABLISHED' and kw.get('to') != 'ESTABLISHED':
            self.slog('down')

    def absorb(self) -> None:
        """Turn what the remote speaker received since the last call into upd / eor lines."""
        for t, typ, raw in self.rx_msgs[self.seen :]:
            if typ != 2:
                continue
            ab = self.namer.abstract_update(raw[19:])
            if ab['eor'] != 'none':
                self.slog('eor', fam=ab['eor'], cache=self.cache())
            else:
                self.slog('upd', ann=ab['ann'], wd=ab['wd'])
        self.seen = len(self.rx_msgs)

    def op(self, name: str, k: str, a: str = 'x') -> None:
        rib = self.neighbor.rib.outgoing
        if name == 'Announce':
            rib.add_to_rib(self.namer.route(k, a))
        else:
            rib.del_from_rib(self.namer.route(k, 'x'))
        self.slog('op', name=name, k=k, a=a if name == 'Announce' else 'none', cache=self.cache())

    def count(self, typ: int) -> int:
        return sum(1 for m in self.rx_msgs[getattr(self, 'conn_rx_start', 0) :] if m[1] == typ)


async def direct(w: SystemWorld, steps) -> None:
    for st in steps:
        do = st['do']
        if do == 'est':
            if not await w.establish():
                return
        elif do == 'op':
            w.absorb()
            w.op(st['name'], st['k'], st.get('a', 'x'))
        elif do == 'more':  # let n more UPDATE-type messages arrive (bounded wait)
            target = w.count(2) + st.get('n', 1)
            t_end = w.clock.now + st.get('ms', 400) / 1000.0
            while w.count(2) < target and w.clock.now < t_end:
                await asyncio.sleep(0.002)
            w.absorb()
        elif do == 'sleep':
            await asyncio.sleep(st['ms'] / 1000.0)
            w.absorb()
        elif do == 'cut':
            w.absorb()
            w.remote_close()
            await asyncio.sleep(0.02)
        elif do == 'refresh':
            await w.remote_send(bgpmsg.refresh(1, 1), 'REFRESH')
        elif do == 'quiet':  # wait for the queue to drain: no new message for 600 ms, then judge
            last = -1
            while last != len(w.rx_msgs):
                last = len(w.rx_msgs)
                await asyncio.sleep(0.6)
            w.absorb()
            pending = bool(w.neighbor.rib.outgoing.pending())
            if w.peer.fsm.name() == 'ESTABLISHED' and not pending:
                w.slog('quiet', cache=w.cache())
    w.absorb()


def from_rib_history(hist, rnd: random.Random) -> tuple:
    """Translate an ExaRib history (TLC-generated) into a peer-level scenario."""
    steps = []
    up = False
    for a in hist:
        n = a['name']
        if n == 'Announce' and a['k'] in KS:
            steps.append({'do': 'op', 'name': 'Announce', 'k': a['k'], 'a': a['a']})
        elif n == 'Withdraw' and a['k'] in KS:
            steps.append({'do': 'op', 'name': 'Withdraw', 'k': a['k']})
        elif n == 'SessionUp' and not up:
            steps.append({'do': 'est'})
            up = True
        elif n == 'SessionDown' and up:
            steps.append({'do': 'cut'})
            up = False
        elif n == 'SendOne' and up:
            steps.append({'do': 'more', 'n': 1})
        elif n == 'Resend' and up:
            steps.append({'do': 'refresh'})
        elif n == 'SendEOR' and up:
            steps.append({'do': 'sleep', 'ms': 150})
    if not up:
        steps.append({'do': 'est'})
    steps.append({'do': 'quiet'})
    return steps


def cut_scenarios(rnd: random.Random, n: int) -> list:
    """sessions cut after the j-th message, during establishment, with operations while down"""
    out = []
    for i in range(n):
        steps = []
        for _ in range(rnd.randint(0, 3)):
            steps.append({'do': 'op', 'name': 'Announce', 'k': rnd.choice(KS), 'a': rnd.choice(['x', 'y'])})
        steps.append({'do': 'est'})
        for _ in range(rnd.randint(1, 3)):
            r = rnd.random()
            if r < 0.4:
                steps.append({'do': 'more', 'n': rnd.randint(1, 4)})
            elif r < 0.7:
                steps.append({'do': 'op', 'name': rnd.choice(['Announce', 'Announce', 'Withdraw']), 'k': rnd.choice(KS), 'a': rnd.choice(['x', 'y'])})
            else:
                steps.append({'do': 'sleep', 'ms': rnd.choice([1, 120, 400])})
        steps.append({'do': 'cut'})
        for _ in range(rnd.randint(0, 3)):
            steps.append({'do': 'op', 'name': rnd.choice(['Announce', 'Withdraw', 'Withdraw']), 'k': rnd.choice(KS), 'a': rnd.choice(['x', 'y'])})
        if rnd.random() < 0.3:  # a reconnection that dies during establishment
            steps += [{'do': 'sleep', 'ms': 300}, {'do': 'cut'}]
        steps += [{'do': 'est'}, {'do': 'quiet'}]
        out.append(steps)
    return out


def run_one(steps, tid, configured, rate_limit, nocache=False):
    w = SystemWorld(configured, rate_limit, no_adj_rib_out=nocache)

    async def d(world):
        await direct(world, steps)

    w.run(d, horizon_ms=60_000)
    for ln in w.sys:
        ln['tid'] = tid
    return w.sys


def judge(lines, label, keys=('k1', 'k2', 'k3'), fams=('v4u', 'v6u')):
    path = os.path.join(tlc.WORK, f'sys-{label}.ndjson')
    os.makedirs(tlc.WORK, exist_ok=True)
    with open(path, 'w') as f:
        for ln in lines:
            f.write(json.dumps(ln) + '\n')
    cfg = os.path.join(tlc.WORK, f'sys-{label}.cfg')
    q = lambda xs: ', '.join('"%s"' % x for x in xs)   # noqa: E731
    open(cfg, 'w').write('SPECIFICATION ObsSpec\nCONSTANTS\n  Keys = {%s}\n  Fams = {%s}\nINVARIANT Report\nCHECK_DEADLOCK FALSE\n' % (q(keys), q(fams)))
    res = tlc.run('Obs_ExaSystem', cfg, f'sys-{label}', workers=1, env={'TRACE_FILE': path})
    verdict = [v for v in res.printed() if v[1] == 'verdict']
    try:
        os.unlink(path)
    except OSError:
        pass
    if not verdict or verdict[-1][2] != len(lines):
        raise tlc.TLCError('Obs_ExaSystem did not consume the whole log: ' + res.out[-2500:])
    return json.loads(verdict[-1][3]), res


def run_system(ck: Check, scenarios, label: str) -> None:
    lines = []
    meta = {}
    for tid, sc in enumerate(scenarios):
        steps, configured, rate = sc[:3]
        nocache = len(sc) > 3 and sc[3]
        ln = run_one(steps, tid, configured, rate, nocache)
        lines += ln
        meta[tid] = (steps, configured, rate, nocache)
        ck.count({'steps': steps, 'cfg': configured, 'rate': rate})
        if tid in (0, len(scenarios) // 2):
            ck.sample({'steps': steps, 'configured': configured, 'rate_limit': rate, 'log': [{k: v for k, v in e.items() if v not in ('', [], {}) and k != 'tid'} for e in ln[:30]]})
    bad, res = judge(lines, label)
    ck.tlc(res, f'Obs_ExaSystem {label}: {len(lines)} lines of {len(scenarios)} peer-level traces')
    ck.cov['traces_validated_against_impl'] = ck.cov.get('traces_validated_against_impl', 0) + len(scenarios)
    for b in bad:
        steps, configured, rate, nocache = meta[b['tid']]
        for clause in b['clauses']:
            fp = {'clause': clause, 'configured': configured, 'ops': [s.get('name', s['do']) for s in steps]}
            if nocache:
                fp['adj-rib-out'] = False
            ck.violation(fp, f'{clause} ({b["e"]}) in peer-level scenario {steps} configured={configured} rate_limit={rate} adj-rib-out={not nocache}', {'steps': steps, 'configured': configured, 'rate': rate, 'nocache': nocache, 'clause': clause})
