"""C16 - FlowSpec rules mean on the wire what they say in text."""

from __future__ import annotations

import json
import os
import random

os.environ.setdefault('exabgp_log_enable', 'false')

from exabgp.bgp.message import Action
from exabgp.bgp.message.notification import Notify
from exabgp.bgp.message.update.nlri.flow import Flow
from exabgp.bgp.message.update.nlri.nlri import NLRI
from exabgp.configuration.configuration import Configuration
from exabgp.protocol.family import AFI, SAFI

from harness import updcheck
from harness.common import Check, seed

NUM = {'one': '=80', 'two': '[ =80 =8080 ]', 'range': '>=1024&<=8191', 'b255': '=255', 'b256': '=256', 'max16': '<65535', 'three': '[ >10&<20 =30 ]'}
BASE = {'v6': False, 'rd': False, 'dst': 'p24', 'src': 'none', 'proto': 'one', 'port': 'none', 'dport': 'one', 'sport': 'none', 'itype': 'none', 'icode': 'none',
        'flags': 'none', 'plen': 'none', 'dscp': 'none', 'frag': 'none', 'label': 'none', 'pad': 'none', 'action': 'discard'}


def diff(u):
    return {k: v for k, v in u.items() if BASE.get(k) != v}


FORMS = ('block', 'block-reversed', 'line', 'announce', 'announce-reversed')


def rule_text(u: dict, npad: int, form: str = 'block'):
    """-> (section, text, action) for Configuration.partial().  One abstract rule has five concretisations: the
    `route { match { } then { } }` block with the conditions in component order or reversed, the one-line `route ...`
    form, and the API form `announce ipv4|ipv6 flow|flow-vpn ...` in order or reversed: the order in which the conditions
    are typed must not show on the wire (RFC 8955 4.2: components in increasing type order)."""
    v6 = u['v6']
    pfx = {'p24': '2001:db8::/32' if v6 else '192.168.0.0/24', 'host': '2001:db8::1/128' if v6 else '10.0.0.1/32', 'def': '::/0' if v6 else '0.0.0.0/0',
           'off64': '::1234:5678:9a00:0/104/64', 'off65': '::1234:5678:9a00:0/104/65'}
    m = []
    if u['dst'] != 'none':
        m.append(f'destination {pfx[u["dst"]]}')
    if u['src'] != 'none':
        m.append(f'source {pfx[u["src"]]}')
    if u['proto'] != 'none':
        m.append(('next-header ' if v6 else 'protocol ') + {'one': '=tcp', 'two': '[ =tcp =udp ]'}[u['proto']])
    if u['port'] != 'none':
        m.append(f'port {NUM[u["port"]]}')
    if npad > 0:
        m.append('destination-port [ ' + ' '.join(f'={1000 + i}' for i in range(1, npad + 1)) + ' ]')
    elif u['dport'] != 'none':
        m.append(f'destination-port {NUM[u["dport"]]}')
    if u['sport'] != 'none':
        m.append(f'source-port {NUM[u["sport"]]}')
    if u['itype'] != 'none':
        m.append('icmp-type =8')
    if u['icode'] != 'none':
        m.append('icmp-code =0')
    if u['flags'] != 'none':
        m.append('tcp-flags ' + {'syn': '[ syn ]', 'synack': '[ =syn+ack ]', 'notrst': '[ !rst ]'}[u['flags']])
    if u['plen'] != 'none':
        m.append(f'packet-length {NUM[u["plen"]]}')
    if u['dscp'] != 'none':
        m.append(('traffic-class' if v6 else 'dscp') + ' =10')
    if u['frag'] != 'none':
        m.append('fragment ' + {'isf': '[ is-fragment ]', 'first': '[ first-fragment ]'}[u['frag']])
    if u['label'] != 'none':
        m.append('flow-label =100000')
    thens = {'discard': ['discard'], 'rate': ['rate-limit 9600'], 'redirect': ['redirect 65500:12345'], 'mark': ['mark 12'], 'sample': ['action sample'], 'terminal': ['action terminal'],
             'discard-sample': ['discard', 'action sample'], 'redirect-mark': ['redirect 65500:12345', 'mark 12']}[u['action']]
    then = ' '.join(thens)
    if form.endswith('reversed'):
        m.reverse()
    if form.startswith('block'):
        rd = 'rd 65000:1; ' if u['rd'] else ''
        return 'flow', 'route { ' + rd + 'match { ' + ' '.join(x + ';' for x in m) + ' } then { ' + ' '.join(x + ';' for x in thens) + ' } }', ''
    rd = 'rd 65000:1 ' if u['rd'] else ''
    if form == 'line':
        return 'flow', 'route ' + rd + ' '.join(m) + ' ' + then, ''
    return ('ipv6' if v6 else 'ipv4'), ('flow-vpn ' if u['rd'] else 'flow ') + rd + ' '.join(m) + ' ' + then, 'announce'


def npad_of(u: dict, want: bytes) -> int:
    """number of padding ports in the expected NLRI: recovered from the expected bytes (3 bytes per =1000+i operator)"""
    if u['pad'] == 'none':
        return 0
    n = 0
    while any(bytes([op, (1001 + n) >> 8, (1001 + n) & 0xFF]) in want for op in (0x11, 0x91)):
        n += 1
    return n


def decode(afi, safi, data: bytes):
    """-> bytes of the re-packed decoded rule, or None when the decoder refused"""
    try:
        nlri, left = NLRI.unpack_nlri(afi, safi, data, Action.ANNOUNCE, None, None)
    except Notify:
        return None
    except Exception as exc:
        return ('raised ' + type(exc).__name__).encode()
    if nlri is NLRI.INVALID or nlri is None:
        return None
    try:
        return bytes(nlri.pack_nlri(None)) + b'|' + str(nlri).encode()
    except Exception:
        return None


def execute(conf, u: dict, want: bytes, form: str = 'block') -> dict:
    out = {'error': '', 'nlri': [], 'ecs': [], 'redec': [], 'refusedOk': True, 'text': '', 'fam': [0, 0]}
    nlri_want, action_want = want[:-8], want[-8:]
    section, text, action = rule_text(u, npad_of(u, nlri_want), form)
    out['text'] = f'[{form}] ' + (text if len(text) < 400 else text[:200] + ' ... ' + text[-120:])
    try:
        conf.scope.pop_routes()
        if not (conf.partial(section, text, action) if action else conf.partial(section, text)):
            out['error'] = 'refused: ' + str(conf.error)[:160]
            return out
        if action:
            conf.scope.to_context()
        routes = conf.scope.pop_routes()
        if len(routes) != 1:
            out['error'] = f'{len(routes)} routes'
            return out
        r = routes[0]
        out['nlri'] = list(bytes(r.nlri.pack_nlri(None)))
        ec = r.attributes.get(16)
        raw = bytes(ec._packed) if ec is not None and hasattr(ec, '_packed') else b''
        out['ecs'] = [list(raw[i:i + 8]) for i in range(0, len(raw), 8)]
        fam = r.nlri.family().afi_safi()
        out['fam'] = [int(fam[0]), int(fam[1])]
    except Exception as exc:
        out['error'] = type(exc).__name__ + ': ' + str(exc)[:160]
        return out
    # decode direction, from the reference bytes
    afi = AFI.ipv6 if u['v6'] else AFI.ipv4
    safi = SAFI.flow_vpn if u['rd'] else SAFI.flow_ip
    d = decode(afi, safi, nlri_want)
    out['redec'] = list(d.split(b'|')[0]) if d else []
    # malformed variants: must be refused, never delivered as a (shorter) rule
    hl = 1 if nlri_want[0] < 0xF0 else 2
    body = nlri_want[hl:]

    def relen(b):
        return (bytes([len(b)]) if len(b) < 240 else bytes([0xF0 | (len(b) >> 8), len(b) & 0xFF])) + b

    variants = {
        'undefined-component': relen(body + bytes([14 if not u['v6'] else 15, 0x81, 0x01])),
        'truncated-last-value': relen(body[:-1]) if len(body) > 3 else None,
        'length-longer-than-data': bytes([nlri_want[0] + 2]) + body if hl == 1 and nlri_want[0] < 0xEE else None,
    }
    bad = []
    for name, data in variants.items():
        if data is None:
            continue
        got = decode(afi, safi, data)
        if got is not None:
            bad.append(name + ' -> ' + got.split(b'|')[-1].decode('ascii', 'replace')[:80])
    out['refusedOk'] = not bad
    out['delivered'] = bad
    return out


def run(tier: str) -> int:
    ck = Check('C16', tier, 'model_checking')
    ck.cov['rule'] = (
        'cases = FlowSpec rules enumerated by TLC (Gen_ExaFlow: four base rules, Width of 17 fields changed: IPv4/IPv6, route distinguisher, '
        'destination/source prefix shapes, protocol, port / destination-port / source-port operator lists incl. ranges, and-chains and the '
        '255/256 and 65535 width boundaries, icmp, tcp-flags and fragment bitmask forms, packet-length, dscp, flow-label, padding to exactly '
        '239/240/241 bytes, the six traffic actions); the rule text goes through the real flow parser and Flow.pack_nlri(); TLC compares the '
        'bytes with EncFlow(rule) byte for byte and the extended community with the RFC 8955 mapping; the reference bytes are fed to the real '
        'decoder (must give the same rule back) and three malformed variants of them must be refused; distinct = distinct rules'
    )
    ck.assumptions += ['operator text uses the explicit forms (=, >=, <, !, &); prefixes /24 /32 /0 (IPv4) and /32 /128 /0 with offset 0 (IPv6)']
    rnd = random.Random(seed())
    states = updcheck.gen_rows(ck, 'Gen_ExaFlow', 2 if tier == 'quick' else 4, 'c16' + tier[0], invariants=('TableOK',), extra_cfg='CONSTRAINT Bound\n')
    states = [st for st in states if st['bytes']]
    limit = 3000 if tier == 'quick' else 60000
    ck.cov['exhaustive'] = len(states) <= limit
    if len(states) > limit:
        states = rnd.sample(states, limit)
    conf = Configuration([])
    lines = []
    for i, st in enumerate(states):
        u = st['u']
        # one of the five text forms per rule (all of them in turn over the table); the base rules in every form
        form = FORMS[i % len(FORMS)]
        out = execute(conf, u, bytes(st['bytes']), form)
        lines.append({'id': i, 'u': u, **{k: out[k] for k in ('error', 'nlri', 'ecs', 'redec', 'refusedOk', 'fam')}})
        ck.count(u, nontrivial=bool(diff(u)))
        if i in (1, len(states) // 2):
            ck.sample({'rule': diff(u), 'text': out['text'], 'nlri_hex': bytes(out['nlri']).hex()[:120], 'expected_hex': bytes(st['bytes'][:-8]).hex()[:120]})
        lines[-1]['_text'] = out['text']
        lines[-1]['_form'] = form
        lines[-1]['_delivered'] = out.get('delivered', [])
    bad, res = updcheck.judge([{k: v for k, v in ln.items() if not k.startswith('_')} for ln in lines], 'Judge_ExaFlow', 'c16' + tier[0])
    ck.tlc(res, f'Judge_ExaFlow: {len(lines)} rules')
    ck.cov['traces_validated_against_impl'] = len(lines)
    for b in bad:
        ln = lines[b['id']]
        for clause in b['clauses']:
            ck.violation({'clause': clause, 'changed': diff(ln['u']), 'offset': ln['u']['dst'].startswith('off')}, f'{clause}: {ln["_text"][:260]} error={ln["error"]!r} delivered={ln["_delivered"]} packed={bytes(ln["nlri"]).hex()[:80]}',
                         {'u': ln['u'], 'want': bytes(states[b['id']]['bytes']).hex(), 'clause': clause, 'form': ln['_form']})
    return ck.finish()


def replay_file(path: str) -> int:
    c = json.load(open(path))['case']
    out = execute(Configuration([]), c['u'], bytes.fromhex(c['want']), c.get('form', 'block'))
    bad, _ = updcheck.judge([{'id': 0, 'u': c['u'], **{k: out[k] for k in ('error', 'nlri', 'ecs', 'redec', 'refusedOk', 'fam')}}], 'Judge_ExaFlow', 'replay')
    print(out['text'], bytes(out['nlri']).hex(), 'expected', c['want'][:-16], out['error'], out.get('delivered'))
    if any(c['clause'] in b['clauses'] for b in bad):
        print(f'VIOLATION property=C16 replay={path}')
        return 1
    print('replay: property held on this case')
    return 0
