"""C04 / C11 (RIB level): TLC explores ExaRib, every explored history is replayed on the real OutgoingRIB, the log is
judged by TLC (Obs_ExaRib: the properties on what was observed; Trace_ExaRib: conformance with the specification)."""

from __future__ import annotations

import json
import os
import random

from harness import tlc
from harness.common import Check, seed

CFG_COMMON = """
CONSTANTS
  Keys = {{{keys}}}
  Attrs = {{{attrs}}}
  Fams = {{{fams}}}
  WdNames = {{"w"}}
{variant}"""


# The specification is written for the intended design; each constant below switches one action to what the tree did
# before the corresponding `fix:` commit (DESIGN.md section 10).  INTENDED is what is model-checked; ASIS is the variant
# the real code is expected to conform to (equal to INTENDED once every fix is in /repo).
INTENDED = {'EmitSuperseded': 'FALSE', 'RefreshSurvivesWithdraw': 'FALSE'}
ASIS = dict(INTENDED)
ASIS.update(json.load(open(os.path.join(tlc.SPEC, 'asis.json'))).get('ExaRib', {}))


def _variant(v) -> str:
    return ''.join(f'  {k} = {val}\n' for k, val in v.items())


def _set(xs) -> str:
    return ', '.join('"%s"' % x for x in xs)


def _fams(keys) -> str:
    return _set(['v4u', 'v4l'] if 'k7' in keys else ['v4u', 'v6u'])


def mc_cfg(keys, attrs, level, variant=INTENDED) -> str:
    return (
        'SPECIFICATION Spec\n'
        + CFG_COMMON.format(keys=_set(keys), attrs=_set(attrs), fams=_fams(keys), variant=_variant(variant))
        + f"""  AttrIdx <- MCAttrIdx
  FamOf <- MCFamOf
  Grouped <- MCGrouped
  MaxLevel = {level}
  MaxDown = 2
  MaxResend = 1
  MaxWdog = 1
VIEW View
CONSTRAINT LevelOK
INVARIANT TypeOK
INVARIANT Converged
INVARIANT EorAfterBatch
PROPERTY NoResurrection
PROPERTY Resync
CHECK_DEADLOCK FALSE
"""
    )


def gen_cfg(keys, attrs, level, variant=INTENDED) -> str:
    return (
        'SPECIFICATION GSpec\n'
        + CFG_COMMON.format(keys=_set(keys), attrs=_set(attrs), fams=_fams(keys), variant=_variant(variant))
        + f"""  AttrIdx <- MCAttrIdx
  FamOf <- MCFamOf
  Grouped <- MCGrouped
  MaxLevel = {level}
VIEW GView
CONSTRAINT LevelOK
CHECK_DEADLOCK FALSE
"""
    )


def trace_cfg(keys, attrs, variant=ASIS) -> str:
    return (
        'SPECIFICATION TraceSpec\n'
        + CFG_COMMON.format(keys=_set(keys), attrs=_set(attrs), fams=_fams(keys), variant=_variant(variant))
        + """  AttrIdx <- TAttrIdx
  FamOf <- TFamOf
  Grouped <- TGrouped
INVARIANT TypeOK
POSTCONDITION TraceAccepted
CHECK_DEADLOCK FALSE
"""
    )


def obs_cfg(keys) -> str:
    return f'SPECIFICATION ObsSpec\nCONSTANTS\n  Keys = {{{_set(keys)}}}\n  WdNames = {{"w"}}\nINVARIANT Report\nCHECK_DEADLOCK FALSE\n'


def write_cfg(name: str, text: str) -> str:
    os.makedirs(tlc.WORK, exist_ok=True)
    path = os.path.join(tlc.WORK, name)
    open(path, 'w').write(text)
    return path


# ------------------------------------------------------------------------------------------------------------
def model_check(ck: Check, keys, attrs, level, label, timeout=1500):
    cfg = write_cfg(f'mc-{label}.cfg', mc_cfg(keys, attrs, level))
    res = tlc.run('MC_ExaRib', cfg, f'mc-{label}', workers=16, args=['-coverage', '1'], timeout=timeout)
    ck.tlc(res, f'MC_ExaRib {label}: keys={keys} attrs={attrs} depth<={level}')
    if not res.ok:
        raise tlc.TLCError(f'the intended-design model violates {res.violated_invariant}: ' + res.out[-1500:])
    needed = ['Announce', 'Withdraw', 'Resend', 'WithdrawAll', 'WatchdogAdd', 'WatchdogAnnounce', 'WatchdogWithdraw', 'StartFlush', 'SendOne', 'FlushDone', 'SendEOR', 'SessionDown', 'SessionUp']
    never = [a for a in needed if res.coverage.get(a, 0) == 0]
    if never:
        raise tlc.TLCError(f'vacuity guard: actions never taken in {label}: {never}')
    ck.cov.setdefault('action_coverage', {})[label] = {a: res.coverage.get(a, 0) for a in needed}
    return res


def gen_scripts(ck: Check, keys, attrs, level, label):
    res, hists = tlc.dump_var('Gen_ExaRib', '', f'gen-{label}', 'hist', cfg_text=gen_cfg(keys, attrs, level))
    if res.rc != 0:
        raise tlc.TLCError('script generation failed: ' + res.out[-1500:])
    ck.tlc(res, f'Gen_ExaRib {label}: one history per distinct (state, last action), depth<={level}')
    out = []
    for h in hists:
        script = []
        for a in h:
            a = dict(a)
            if 'fams' in a:
                a['fams'] = sorted(a['fams']['__set__'])
            a.pop('msg', None)
            a.pop('iw', None)
            script.append(a)
        if script:
            out.append(script)
    return out


def random_scripts(rnd: random.Random, keys, attrs, n, maxlen):
    """Seeded scripts of operator actions only (guards of the flush/session actions are applied at replay)."""
    out = []
    names = ['Announce'] * 5 + ['Withdraw'] * 3 + ['Resend', 'WithdrawAll', 'WatchdogAdd', 'WatchdogAnnounce', 'WatchdogWithdraw'] + ['StartFlush'] * 3 + ['Advance'] * 6 + ['SessionDown', 'SessionUp', 'SessionUp']
    for _ in range(n):
        s = []
        for _ in range(rnd.randint(3, maxlen)):
            n_ = rnd.choice(names)
            if n_ == 'Announce':
                s.append({'name': n_, 'k': rnd.choice(keys), 'a': rnd.choice(attrs)})
            elif n_ == 'Withdraw':
                s.append({'name': n_, 'k': rnd.choice(keys)})
            elif n_ == 'Resend':
                other = 'v4l' if 'k7' in keys else 'v6u'
                s.append({'name': n_, 'enhanced': rnd.random() < 0.5, 'fams': rnd.choice([['v4u'], [other], ['v4u', other]])})
            elif n_ == 'WatchdogAdd':
                s.append({'name': n_, 'w': 'w', 'k': rnd.choice(keys), 'a': rnd.choice(attrs), 'withdrawn': rnd.random() < 0.5})
            elif n_ in ('WatchdogAnnounce', 'WatchdogWithdraw'):
                s.append({'name': n_, 'w': 'w'})
            else:
                s.append({'name': n_})
        out.append(s)
    return out


def execute(world, script, keys, tid, drain=True):
    """Run one script on the real RIB (skipping steps whose harness-visible guard is false), then drain."""
    world.reset_world()
    lines = [{'tid': tid, 'name': 'Begin'}]

    def do(a):
        ev = world.step(a)
        ev['tid'] = tid
        for f in ('cache', 'queued', 'peer'):
            ev['obs'][f] = {k: ev['obs'][f][k] for k in keys}
        lines.append(ev)

    for a in script:
        if world.enabled(a['name']):
            do(a)
    if drain:
        if not world.up:
            do({'name': 'SessionUp'})
        for _ in range(8):
            if world.live or world.rib.pending():
                if not world.live:
                    do({'name': 'StartFlush'})
                while world.live:
                    do({'name': 'Advance'})
            else:
                break
    return lines


def judge(lines, keys, attrs, label, variant=ASIS):
    """-> (obs violations [{tid,line,rules}], conformance rejections [(tid, line, name)], tlc results)"""
    path = os.path.join(tlc.WORK, f'trace-{label}.ndjson')
    os.makedirs(tlc.WORK, exist_ok=True)
    with open(path, 'w') as f:
        for ln in lines:
            f.write(json.dumps(ln) + '\n')
    env = {'TRACE_FILE': path}
    ocfg = write_cfg(f'obs-{label}.cfg', obs_cfg(keys))
    ores = tlc.run('Obs_ExaRib', ocfg, f'obs-{label}', workers=1, env=env)
    obs = None
    for v in ores.printed():
        if v[1] == 'obs':
            obs = json.loads(v[2])
    if obs is None:
        raise tlc.TLCError('Obs_ExaRib produced no verdict: ' + ores.out[-1500:])
    # conformance, dropping rejected traces until everything left is accepted
    tcfg = write_cfg(f'trace-{label}.cfg', trace_cfg(keys, attrs, variant))
    rejected = []
    cur = lines
    tres = None
    for _ in range(25):
        with open(path, 'w') as f:
            for ln in cur:
                f.write(json.dumps(ln) + '\n')
        tres = tlc.run('Trace_ExaRib', tcfg, f'trace-{label}', workers=1, env=env, deque=False)
        verdict = [v for v in tres.printed() if v[1] in ('accepted', 'rejected')]
        if not verdict:
            raise tlc.TLCError('Trace_ExaRib produced no verdict: ' + tres.out[-1500:])
        v = verdict[-1]
        if v[1] == 'accepted':
            break
        tid = v[3]
        first = next(i for i, ln in enumerate(cur) if ln['tid'] == tid)
        rejected.append({'tid': tid, 'step': v[2] - first - 1, 'name': v[4]})
        cur = [ln for ln in cur if ln['tid'] != tid]
        if not cur:
            break
    try:
        os.unlink(path)
    except OSError:
        pass
    return obs, rejected, ores, tres


# canonical form of a script modulo renaming of keys / attributes (for fingerprints)
def canonical(script):
    km, am = {}, {}
    out = []
    for a in script:
        b = {'name': a['name']}
        if 'k' in a:
            b['k'] = km.setdefault(a['k'], ('K6_' if a['k'] in ('k3', 'k5') else 'K4_') + str(len(km) + 1))
        if 'a' in a:
            b['a'] = am.setdefault(a['a'], 'A' + str(len(am) + 1))
        for f in ('enhanced', 'withdrawn', 'fams'):
            if f in a:
                b[f] = a[f]
        out.append(b)
    return out


def py_rules(lines):
    """Cheap python mirror of Obs rules A2/A3, used ONLY to drive shrinking (every reported case was judged by TLC)."""
    bad = set()
    for ln in lines:
        if ln['name'] == 'Begin':
            continue
        o = ln['obs']
        if o['up'] and not o['live'] and not o['pending'] and o['peer'] != o['cache']:
            bad.add('A2-peer-table-differs-after-drain')
        if ln['name'] == 'SendOne' and any(w.get('t') == 'upd' and w.get('eor') != 'none' for w in ln['wire']):
            bad.add('A3-end-of-rib-in-update-stream')
    return bad


def shrink(world, script, keys, rule):
    cur = list(script)
    changed = True
    while changed:
        changed = False
        for i in range(len(cur)):
            cand = cur[:i] + cur[i + 1 :]
            if rule in py_rules(execute(world, cand, keys, 0)):
                cur = cand
                changed = True
                break
    return cur


def run_rib(ck: Check, prop: str, keys, attrs, gen_level, n_random, rules, label, only_with=None):
    from harness.ribdrv import CONF, CONF_LABELED, RibWorld

    world = RibWorld(CONF_LABELED if 'k7' in keys else CONF)
    scripts = gen_scripts(ck, keys, attrs, gen_level, label)
    ck.cov['exhaustive'] = True
    rnd = random.Random(seed())
    scripts += random_scripts(rnd, keys, attrs, n_random, 16)
    if only_with:
        scripts = [s for s in scripts if any(a['name'] in only_with for a in s)]
    import time as _t

    t0 = _t.time()
    lines = []
    by_tid = {}
    for tid, s in enumerate(scripts):
        tl = execute(world, s, keys, tid)
        by_tid[tid] = s
        lines += tl
        ck.count([a for a in canonical(s)], nontrivial=len(s) >= 2)
        if tid in (len(scripts) // 3, len(scripts) // 2, len(scripts) - 1):
            ck.sample({'script': s, 'executed': [{k: v for k, v in ln.items() if k not in ('obs', 'tid')} for ln in tl[1:]], 'final': tl[-1].get('obs')})
    t1 = _t.time()
    obs, rejected, ores, tres = judge(lines, keys, attrs, label)
    ck.cov.setdefault('phase_wall_s', {})[label] = {'replay': round(t1 - t0, 1), 'judge': round(_t.time() - t1, 1), 'obs_tlc': round(ores.wall, 1), 'trace_tlc': round(tres.wall, 1)}
    ck.cov['traces_validated_against_impl'] = ck.cov.get('traces_validated_against_impl', 0) + len(scripts) - len(rejected)
    ck.cov['trace_lines'] = ck.cov.get('trace_lines', 0) + len(lines)
    ck.cov['conformance_rejections'] = ck.cov.get('conformance_rejections', 0) + len(rejected)
    seen = set()
    for v in obs:
        for rule in v['rules']:
            if rule not in rules:
                continue
            s = by_tid[v['tid']]
            small = shrink(world, s, keys, rule) if rule in py_rules(execute(world, s, keys, 0)) else s
            fp = {'rule': rule, 'script': canonical(small)}
            key = json.dumps(fp, sort_keys=True)
            if key in seen:
                continue
            seen.add(key)
            ck.violation(fp, f'{rule}: history {[_fmt(a) for a in small]} then drain', {'script': small, 'original': s, 'keys': keys, 'trace': execute(world, small, keys, 0)})
    for r in rejected[:10]:
        ck.notes.append(f'DRIFT: trace {r["tid"]} step {r["step"]} ({r["name"]}) is not a step of ExaRib: script={[_fmt(a) for a in by_tid[r["tid"]]]}')
        print('DRIFT (specification no longer describes the code; not a verdict):', ck.notes[-1])
    return scripts


def _fmt(a):
    return a['name'] + '(' + ','.join(str(v) for k, v in a.items() if k != 'name') + ')'
