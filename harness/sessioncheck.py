"""C05 / C10 / C12: the real Peer under a virtual clock against a scripted remote speaker; the recorded event log is
validated by TLC against Trace_ExaSession (ExaSession's actions + timer properties)."""

from __future__ import annotations

import asyncio
import json
import os
import random
import re
import struct

from harness import bgpmsg, tlc
from harness.common import Check

G_MS = 1250
OPENWAIT_MS = 60000

FIELDS = {'tid': 0, 't': 0, 'e': '', 'what': '', 'cls': '', 'hold': 0, 'kind': '', 'type': 0, 'code': 0, 'sub': 0, 'frm': '', 'to': '', 'c': 0}


def build(world, cls: str, hold_s: int | None = None) -> bytes:
    """Concrete bytes for a stimulus class (the class names are those of ExaSession!Classes)."""
    if cls == 'OPEN':
        # the class is "a valid OPEN": every second one sent in a scenario also carries the host-name capability with names
        # which are not ASCII (a valid OPEN all the same; what the peer does with the text -- logs, NOTIFICATION data, API --
        # must not change how the session goes)
        world._opens_built = getattr(world, '_opens_built', 0) + 1
        if world._opens_built % 2 == 0:
            return world.open_bytes(hold=hold_s, hostname=('z\u00fcrich-rr1', 'exemple.\u00e9'))
        return world.open_bytes(hold=hold_s)
    if cls == 'OPEN-version':
        raw = bytearray(world.open_bytes(hold=hold_s))
        raw[19] = 3
        return bytes(raw)
    if cls == 'OPEN-as':
        return world.open_bytes(hold=hold_s, asn=65099)
    if cls == 'OPEN-id':
        return world.open_bytes(hold=hold_s, rid='0.0.0.0')
    if cls == 'OPEN-hold':
        return world.open_bytes(hold=hold_s if hold_s in (1, 2) else 2)
    if cls == 'OPEN-trunc':
        raw = bytearray(world.open_bytes(hold=hold_s))
        raw[28] = raw[28] + 7  # optional parameter length larger than what follows
        return bytes(raw)
    if cls == 'KA':
        return bgpmsg.keepalive()
    if cls == 'UPD':
        return bgpmsg.update(attrs=bgpmsg.base_attrs(aspath=(world.peer_as,)), nlri=bgpmsg.prefix('198.51.100.0/24', 1))
    if cls == 'UPD-eor':
        return bgpmsg.eor()
    if cls in ('UPD-4097', 'HDR-length-4097'):
        # a well-formed UPDATE of 4097 bytes: acceptable iff both sides announced extended messages (RFC 8654)
        at = bgpmsg.base_attrs(aspath=(world.peer_as,))
        nlri = bgpmsg.prefix('198.51.100.0/24', 1)
        pad = 4097 - 19 - 4 - len(at) - len(nlri) - 4
        at += bgpmsg.attr(0xC0, 250, b'\x00' * pad)
        raw = bgpmsg.update(attrs=at, nlri=nlri)
        assert len(raw) == 4097, len(raw)
        return raw
    if cls == 'UPD-reset':
        # Total Path Attribute Length runs past the end of the message: RFC 4271 6.3 / RFC 7606 3(b) -> 3/1
        body = struct.pack('!H', 0) + struct.pack('!H', 200) + bgpmsg.attr(0x40, 1, b'\x00')
        return bgpmsg.msg(2, body)
    if cls == 'UPD-tolerated':
        # MED of 3 bytes: RFC 7606 7.4 treat-as-withdraw, the session stays up
        at = bgpmsg.base_attrs(aspath=(world.peer_as,)) + bgpmsg.attr(0x80, 4, b'\x00\x00\x01')
        return bgpmsg.update(attrs=at, nlri=bgpmsg.prefix('198.51.100.0/24', 1))
    if cls == 'NOTIF':
        return bgpmsg.notification(6, 2)
    if cls == 'REFRESH':
        return bgpmsg.refresh(1, 1)
    if cls == 'OPER':
        # OPERATIONAL advisory demand message (type 1), ipv4 unicast, some text
        text = b'maintenance at noon'
        return bgpmsg.msg(6, struct.pack('!HH', 1, 3 + len(text)) + struct.pack('!HB', 1, 1) + text)
    if cls == 'HDR-marker':
        return bgpmsg.msg(4, marker=b'\xff' * 15 + b'\x00')
    if cls == 'HDR-length':
        return bgpmsg.msg(4, length=18)
    if cls == 'HDR-type':
        return bgpmsg.msg(9)
    raise ValueError(cls)


async def direct(world, steps) -> None:
    """Interpret a scenario: the remote speaker's side and the operator's side of one run."""
    for st in steps:
        do = st['do']
        n = len(world.rx_msgs)
        if do == 'est':
            if not await world.establish(hold=st.get('hold'), **st.get('caps', {})):
                world.log('harness', what='establish-failed')
                return
        elif do == 'wait':
            await world.wait_rx(st['type'], st.get('since', n if st.get('fresh') else 0), st.get('ms', 3000))
        elif do == 'send':
            if world.remote is None:
                return
            data = build(world, st['cls'], st.get('hold'))
            offered = 0
            if st['cls'].startswith('OPEN'):
                offered = (world.hold if st.get('hold') is None else st['hold']) * 1000
                if st['cls'] == 'OPEN-hold' and st.get('hold') not in (1, 2):
                    offered = 2000
            await world.remote_send(data, st['cls'], st.get('split'), st.get('gap', 0), hold_ms=offered)
        elif do == 'sleep':
            await asyncio.sleep(st['ms'] / 1000.0)
        elif do == 'close':
            world.remote_close()
        elif do == 'teardown':
            world.log('teardown', code=st['code'])
            world.peer.teardown(st['code'])
        elif do == 'incoming':
            world.offer_incoming()
        elif do == 'remove':
            # what Reactor.reload() / shutdown() do with a neighbour which is no longer configured
            world.log('remove')
            getattr(world.peer, st.get('how', 'remove'))()
            world.forget_remote()
        elif do == 'readd':
            world.log('readd')
            world.readd_peer()
        elif do == 'refuse':
            world.connect_plan += ['fail'] * st.get('n', 1)
        else:
            raise ValueError(do)


def normalise(events, tid: int, hold_ms: int) -> list[dict]:
    out = [dict(FIELDS, tid=tid, e='Begin', hold=hold_ms)]
    cur = None
    for ev in events:
        if ev['e'] in ('remote', 'harness', 'reactor', 'rib') or (ev['e'] == 'got' and ev.get('kind') == 'lost'):
            continue
        if ev['e'] == 'conn' and ev.get('what') in ('outgoing', 'incoming-accepted'):
            cur = ev.get('c')
        if ev['e'] == 'close' and cur is not None and ev.get('c') not in (None, cur):
            continue  # a refused inbound connection being closed: not the session's transport
        d = dict(FIELDS)
        for k in FIELDS:
            if k in ev and ev[k] is not None:
                d[k] = ev[k]
        d['tid'] = tid
        if d['e'] == 'got' and d['kind'] == 'undecoded':
            # The neighbour keeps no Adj-RIB-In and nobody consumes received UPDATEs: ExaBGP does not decode the body at all.
            # For the session this is a well-formed UPDATE whatever its content (no property asks for decoding what is not
            # used): the class of the message it consumed is rewritten so that no NOTIFICATION is expected for it.
            d['kind'] = 'msg'
            pending = [x for x in out if x['e'] == 'rx' and x['tid'] == tid and x.get('c') == d.get('c')]
            n_got = sum(1 for x in out if x['e'] == 'got' and x['tid'] == tid and x.get('c') == d.get('c'))
            if n_got < len(pending) and pending[n_got]['cls'].startswith('UPD'):
                pending[n_got]['cls'] = 'UPD'
        out.append(d)
    return out


def run_scenario(steps, tid, hold=9, horizon_ms=120_000, **kw):
    from harness.peerdrv import PeerWorld

    world = PeerWorld(hold=hold, **kw)
    async def director(w):
        await direct(w, steps)

    events = world.run(director, horizon_ms)
    return normalise(events, tid, hold * 1000), world


def judge(lines, label):
    """-> (violations [{tid, line, e, t, clauses}], TLC result).  Total verdict: TLC consumes every line."""
    path = os.path.join(tlc.WORK, f'sess-{label}.ndjson')
    os.makedirs(tlc.WORK, exist_ok=True)
    with open(path, 'w') as f:
        for ln in lines:
            f.write(json.dumps(ln) + '\n')
    res = tlc.run('Trace_ExaSession', 'Trace_ExaSession.cfg', f'sess-{label}', workers=1, env={'TRACE_FILE': path})
    verdict = [v for v in res.printed() if v[1] == 'verdict']
    try:
        os.unlink(path)
    except OSError:
        pass
    if not verdict or verdict[-1][2] != len(lines) or res.violated_invariant:
        raise tlc.TLCError('Trace_ExaSession did not consume the whole log: ' + res.out[-2500:])
    return json.loads(verdict[-1][3]), res


# ------------------------------------------------------------------------------------------------------------
# scenario families

CLASSES = ['OPER', 'OPEN', 'OPEN-version', 'OPEN-as', 'OPEN-id', 'OPEN-hold', 'OPEN-trunc', 'KA', 'UPD', 'UPD-eor', 'UPD-reset', 'UPD-tolerated', 'NOTIF', 'REFRESH', 'HDR-marker', 'HDR-length', 'HDR-type', 'EOF']


def reach(state: str, hold=None) -> list:
    if state == 'OPENSENT':
        return [{'do': 'wait', 'type': 1}]
    if state == 'OPENCONFIRM':
        return [{'do': 'wait', 'type': 1}, {'do': 'send', 'cls': 'OPEN', 'hold': hold}, {'do': 'wait', 'type': 4}]
    return [{'do': 'est', 'hold': hold}, {'do': 'sleep', 'ms': 500}]


def stim(cls: str) -> dict:
    return {'do': 'close'} if cls == 'EOF' else {'do': 'send', 'cls': cls}


def fam_fault_table() -> list:
    """every class of input injected in every session state (C10, C05)"""
    out = []
    for state in ('OPENSENT', 'OPENCONFIRM', 'ESTABLISHED'):
        for cls in CLASSES:
            if cls in ('UPD-reset', 'UPD-tolerated') and state != 'ESTABLISHED':
                continue  # a malformed UPDATE before ESTABLISHED is both an FSM and an UPDATE error: not constrained
            out.append((f'fault:{cls}@{state}', reach(state) + [stim(cls), {'do': 'sleep', 'ms': 1500}], {}))
    return out


def fam_quiet() -> list:
    """the same table on a neighbour which keeps no Adj-RIB-In and has no API consumer for received messages (the decoder
    takes its short cuts there)"""
    kw = {'receive': False, 'extra': 'adj-rib-in false;'}
    out = []
    for state in ('OPENSENT', 'OPENCONFIRM', 'ESTABLISHED'):
        for cls in CLASSES:
            if cls in ('UPD-reset', 'UPD-tolerated') and state != 'ESTABLISHED':
                continue
            out.append((f'quiet:{cls}@{state}', reach(state) + [stim(cls), {'do': 'sleep', 'ms': 1500}], dict(kw)))
    out.append(('quiet:traffic', [{'do': 'est'}, {'do': 'sleep', 'ms': 300}] + [stim(c) for c in ('UPD', 'UPD-eor', 'KA', 'UPD', 'REFRESH', 'UPD-tolerated', 'UPD')] + [{'do': 'sleep', 'ms': 4000}, stim('KA'), {'do': 'sleep', 'ms': 500}], dict(kw)))
    return out


def fam_fault_pairs(rnd: random.Random, n: int) -> list:
    """a fault preceded by ordinary traffic, delivered split or coalesced with what follows (C10: once, nothing after)"""
    out = []
    for i in range(n):
        state = rnd.choice(['OPENSENT', 'OPENCONFIRM', 'ESTABLISHED', 'ESTABLISHED'])
        steps = reach(state)
        if state == 'ESTABLISHED':
            for _ in range(rnd.randint(0, 3)):
                steps.append(stim(rnd.choice(['KA', 'UPD', 'UPD-eor', 'REFRESH', 'UPD-tolerated'])))
                if rnd.random() < 0.5:
                    steps.append({'do': 'sleep', 'ms': rnd.choice([1, 50, 120, 900])})
        cls = rnd.choice([c for c in CLASSES if not (c in ('UPD-reset', 'UPD-tolerated') and state != 'ESTABLISHED')])
        s = stim(cls)
        if s['do'] == 'send' and rnd.random() < 0.5:
            s['split'] = sorted(set(rnd.sample(range(1, 19), rnd.randint(1, 2))))
            s['gap'] = rnd.choice([0, 10, 40])
        steps.append(s)
        # something right behind the fault: must not be interpreted nor answered
        for _ in range(rnd.randint(0, 2)):
            steps.append(stim(rnd.choice(['KA', 'UPD', 'NOTIF', 'HDR-marker', 'OPEN'])))
        steps.append({'do': 'sleep', 'ms': 1500})
        out.append((f'pair{i}:{cls}@{state}', steps, {}))
    return out


def fam_timers(rnd: random.Random, tier: str) -> list:
    """arrival-time sequences for every hold time class (C12)"""
    out = []
    holds = [(9, 9), (3, 3), (30, 9), (9, 30), (0, 9), (9, 0), (90, 4), (6, 180)]  # (configured, offered by the peer)
    for cfg, off in holds:
        h = min(cfg, off)
        kw = {'hold': cfg}
        # total silence after establishment
        out.append((f'silence:h{cfg}/{off}', [{'do': 'est', 'hold': off}, {'do': 'sleep', 'ms': (h + 4) * 1000 if h else 20000}], kw))
        if h:
            # keepalives at H/3 for a while, then silence
            steps = [{'do': 'est', 'hold': off}]
            for _ in range(4):
                steps += [{'do': 'sleep', 'ms': h * 1000 // 3}, {'do': 'send', 'cls': 'KA'}]
            steps.append({'do': 'sleep', 'ms': (h + 3) * 1000})
            out.append((f'ka-then-silence:h{cfg}/{off}', steps, kw))
            # a message just before the hold time each time: never expires
            steps = [{'do': 'est', 'hold': off}]
            for i in range(4):
                steps += [{'do': 'sleep', 'ms': h * 1000 - rnd.choice([150, 400, 900])}, {'do': 'send', 'cls': rnd.choice(['KA', 'UPD', 'UPD-eor'])}]
            steps.append({'do': 'sleep', 'ms': 500})
            out.append((f'just-in-time:h{cfg}/{off}', steps, kw))
            # inbound burst longer than H/3 (messages < 100 ms apart)
            steps = [{'do': 'est', 'hold': off}]
            for i in range(min(60, h * 12)):
                steps += [{'do': 'send', 'cls': 'UPD'}, {'do': 'sleep', 'ms': 80}]
            steps.append({'do': 'sleep', 'ms': 1000})
            out.append((f'burst:h{cfg}/{off}', steps, kw))
    # the peer's OPEN never arrives
    out.append(('openwait', [{'do': 'sleep', 'ms': OPENWAIT_MS + 5000}], {}))
    out.append(('openwait-ka', [{'do': 'wait', 'type': 1}, {'do': 'sleep', 'ms': OPENWAIT_MS + 5000}], {}))
    n = 6 if tier == 'quick' else 60
    for i in range(n):
        cfg = rnd.choice([3, 4, 9, 30, 90])
        off = rnd.choice([3, 5, 9, 12, 60, 0])
        h = min(cfg, off)
        steps = [{'do': 'est', 'hold': off}]
        for _ in range(rnd.randint(2, 10)):
            steps.append({'do': 'sleep', 'ms': rnd.randint(1, (h or 5) * 1300)})
            steps.append(stim(rnd.choice(['KA', 'KA', 'UPD', 'UPD-eor', 'REFRESH'])))
        steps.append({'do': 'sleep', 'ms': rnd.randint(100, (h or 5) * 1500)})
        out.append((f'rand-timing{i}:h{cfg}/{off}', steps, {'hold': cfg}))
    return out


def fam_outbound_batch(tier: str) -> list:
    """a long outbound batch towards a peer which reads slowly: KEEPALIVEs must still go out every H/3 (C12), and the hold
    timer must keep running on what is received"""
    n = 1500 if tier == 'quick' else 6000
    static = 'static { ' + ' '.join(f'route 10.{i // 250}.{i % 250}.0/24 next-hop 192.0.2.1 med {i};' for i in range(n)) + ' }'
    out = []
    for hold in (9, 3):
        steps = [{'do': 'est', 'hold': hold}]
        for _ in range(8):
            steps += [{'do': 'sleep', 'ms': hold * 1000 // 3}, {'do': 'send', 'cls': 'KA'}]
        steps.append({'do': 'sleep', 'ms': 1000})
        out.append((f'outbound-batch:h{hold}', steps, {'hold': hold, 'static': static, 'slow_reader': (1024, 100), 'horizon_ms': 200_000}))
    return out


def fam_connections() -> list:
    """connect failures, inbound connections in every state, teardown codes, EOF at every stage (C05)"""
    out = []
    out.append(('refused-then-ok', [{'do': 'refuse', 'n': 2}, {'do': 'sleep', 'ms': 5000}, {'do': 'est'}, {'do': 'sleep', 'ms': 1000}], {}))
    for code in (1, 2, 3, 4, 5, 6, 8):
        out.append((f'teardown{code}', [{'do': 'est'}, {'do': 'sleep', 'ms': 700}, {'do': 'teardown', 'code': code}, {'do': 'sleep', 'ms': 1500}], {}))
    out.append(('teardown-opensent', [{'do': 'wait', 'type': 1}, {'do': 'teardown', 'code': 2}, {'do': 'send', 'cls': 'OPEN'}, {'do': 'wait', 'type': 4}, {'do': 'send', 'cls': 'KA'}, {'do': 'sleep', 'ms': 1500}], {}))
    out.append(('incoming-in-established', [{'do': 'est'}, {'do': 'sleep', 'ms': 500}, {'do': 'incoming'}, {'do': 'sleep', 'ms': 1000}, {'do': 'send', 'cls': 'KA'}, {'do': 'sleep', 'ms': 500}], {}))
    out.append(('passive', [{'do': 'sleep', 'ms': 300}, {'do': 'incoming'}, {'do': 'est'}, {'do': 'sleep', 'ms': 4000}, {'do': 'close'}, {'do': 'sleep', 'ms': 500}], {'passive': True}))
    # consecutive sessions on the same Peer object with different negotiated hold times
    out.append(('two-sessions-30-then-3', [{'do': 'est', 'hold': 30}, {'do': 'sleep', 'ms': 500}, {'do': 'send', 'cls': 'NOTIF'}, {'do': 'sleep', 'ms': 300}, {'do': 'est', 'hold': 3}, {'do': 'sleep', 'ms': 8000}], {'hold': 30}))
    steps = [{'do': 'est', 'hold': 3}, {'do': 'sleep', 'ms': 500}, {'do': 'send', 'cls': 'NOTIF'}, {'do': 'sleep', 'ms': 300}, {'do': 'est', 'hold': 30}]
    for _ in range(3):
        steps += [{'do': 'sleep', 'ms': 9000}, {'do': 'send', 'cls': 'KA'}]
    out.append(('two-sessions-3-then-30', steps + [{'do': 'sleep', 'ms': 500}], {'hold': 30}))
    # the remote end disappears right behind a fault: the NOTIFICATION cannot be written any more
    for state in ('OPENSENT', 'OPENCONFIRM', 'ESTABLISHED'):
        for cls in ('HDR-marker', 'KA' if state == 'OPENSENT' else 'OPEN', 'HDR-length'):
            out.append((f'fault-then-gone:{cls}@{state}', reach(state) + [stim(cls), {'do': 'close'}, {'do': 'sleep', 'ms': 1500}, {'do': 'incoming'}, {'do': 'sleep', 'ms': 500}], {}))
    # the neighbour is removed (reload without it, shutdown) at every stage of a session, then configured again: every "up"
    # the API saw is followed by a "down" before the next one
    for state in ('OPENSENT', 'OPENCONFIRM', 'ESTABLISHED'):
        for how in ('remove', 'shutdown'):
            out.append((f'{how}-then-back@{state}', reach(state) + [{'do': 'remove', 'how': how}, {'do': 'sleep', 'ms': 700}, {'do': 'readd'}, {'do': 'est'}, {'do': 'sleep', 'ms': 800}, {'do': 'send', 'cls': 'KA'}, {'do': 'sleep', 'ms': 400}], {}))
    out.append(('hold0-from-peer', [{'do': 'wait', 'type': 1}, {'do': 'send', 'cls': 'OPEN', 'hold': 0}, {'do': 'sleep', 'ms': 2000}, {'do': 'send', 'cls': 'KA'}, {'do': 'sleep', 'ms': 8000}], {}))
    return out


def all_scenarios(tier: str, seed: int) -> list:
    rnd = random.Random(seed)
    sc = fam_fault_table() + fam_quiet() + fam_outbound_batch(tier) + fam_connections() + fam_timers(rnd, tier) + fam_fault_pairs(rnd, 40 if tier == 'quick' else 600)
    return sc


def run_family(ck: Check, scenarios, prefix: str, label: str, chunk: int = 2500) -> None:
    """Execute scenarios, let TLC judge, report the clauses whose name starts with `prefix` (in chunks: one TLC run reads
    the whole log it is given)."""
    if len(scenarios) > chunk:
        for i in range(0, len(scenarios), chunk):
            run_family(ck, scenarios[i : i + chunk], prefix, f'{label}-{i // chunk}', chunk)
        return
    lines = []
    meta = {}
    for tid, (name, steps, kw) in enumerate(scenarios):
        ln, _ = run_scenario(steps, tid, **kw)
        lines += ln
        meta[tid] = (name, steps, kw)
        ck.count({'steps': steps, 'kw': kw}, nontrivial=len(steps) >= 2)
        if tid in (1, len(scenarios) // 2, len(scenarios) - 1):
            ck.sample({'scenario': name, 'steps': steps, 'events': [{k: v for k, v in e.items() if v not in ('', 0) or k == 't'} for e in ln[:40]]})
    bad, res = judge(lines, label)
    ck.tlc(res, f'Trace_ExaSession {label}: {len(lines)} events of {len(scenarios)} traces')
    conformance(ck, lines, meta, label)
    ck.cov['traces_validated_against_impl'] = ck.cov.get('traces_validated_against_impl', 0) + len(scenarios)
    ck.cov['trace_lines'] = ck.cov.get('trace_lines', 0) + len(lines)
    other = {}
    for b in bad:
        name, steps, kw = meta[b['tid']]
        for clause in b['clauses']:
            if clause.startswith(prefix):
                fp = {'clause': clause, 'scenario': name.split(':', 1)[-1] if name.startswith(('pair', 'rand')) else name, 'event': b['e']}
                ck.violation(fp, f'{clause} at t={b["t"]}ms ({b["e"]}) in scenario {name}', {'name': name, 'steps': steps, 'kw': kw, 'clause': clause})
            else:
                other[clause] = other.get(clause, 0) + 1
    if other:
        ck.notes.append(f'clauses of other properties seen on the same traces (reported by their own checks): {other}')


def replay_case(path: str, prop: str) -> int:
    case = json.load(open(path))
    c = case['case']
    lines, _ = run_scenario(c['steps'], 0, **c['kw'])
    bad, _ = judge(lines, 'replay')
    for ln in lines:
        print({k: v for k, v in ln.items() if v not in ('', 0) or k == 't'})
    hit = [b for b in bad if c['clause'] in b['clauses']]
    if hit:
        print(f'VIOLATION property={prop} replay={path}')
        print('  ', hit[0])
        return 1
    print('replay: property held on this case')
    return 0


def model_check(ck: Check, tier: str) -> None:
    """Exhaustive check of the closed ExaSession model (MC_ExaSession), when present."""
    if not os.path.exists(os.path.join(tlc.SPEC, 'MC_ExaSession.tla')):
        return
    res = tlc.run('MC_ExaSession', 'MC_ExaSession.cfg' if tier == 'quick' else 'MC_ExaSession_thorough.cfg', f'mcsess-{ck.prop}', workers=16, args=['-coverage', '1'], timeout=1500)
    ck.tlc(res, 'MC_ExaSession: closed model of the peer loop and its environment')
    if not res.ok:
        raise tlc.TLCError(f'MC_ExaSession: {res.violated_invariant}: ' + res.out[-1500:])


# ------------------------------------------------------------------------------------------------------------
# the closed model of the Peer coroutine (spec/ExaPeerLoop.tla): model checking, broken variants, scripts for the real Peer

PL_VARIANTS = {
    'C05': ['EstablishEarly'],
    'C10': ['AnswerNotification', 'StarveAccepted'],
    'C12': ['NoHoldTimer'],
}


def _pl_cfg(budget: int, edge: bool, variant: str | None = None, ticks: str | None = None, cfghold: int = 9000) -> str:
    cfg = open(os.path.join(tlc.SPEC, 'MC_ExaPeerLoop.cfg')).read()
    cfg = re.sub(r'Budget = \d+', f'Budget = {budget}', cfg)
    cfg = re.sub(r'CfgHold = \d+', f'CfgHold = {cfghold}', cfg)
    cfg = cfg.replace('EdgeCover = FALSE', f'EdgeCover = {"TRUE" if edge else "FALSE"}')
    if ticks:
        cfg = re.sub(r'Ticks = \{[^}]*\}', f'Ticks = {ticks}', cfg)
    if variant:
        assert f'{variant} = FALSE' in cfg
        cfg = cfg.replace(f'{variant} = FALSE', f'{variant} = TRUE')
    return cfg


def peerloop_model_check(ck: Check, tier: str) -> None:
    """(M) NoViolation and the structural invariants on every behaviour of the closed model; the variants that re-introduce
    a defect of this property must be rejected by TLC (otherwise the invariant is vacuous: machinery failure)."""
    budget = 2 if tier == 'quick' else 3
    d = tlc.workdir(f'pl-mc-{ck.prop}')
    path = os.path.join(d, 'mc.cfg')
    open(path, 'w').write(_pl_cfg(budget, False))
    res = tlc.run('ExaPeerLoop', path, f'pl-mc-run-{ck.prop}', workers=16, args=['-coverage', '1'], timeout=3000)
    ck.tlc(res, f'ExaPeerLoop: closed model of the Peer coroutine and its environment, budget {budget} + free handshake and timer ticks')
    if not res.ok:
        raise tlc.TLCError(f'ExaPeerLoop: {res.violated_invariant}: ' + res.out[-2500:])
    never = [a for a in ('SActive', 'SROpen', 'SOWait', 'SRKa', 'SMRead', 'SHold', 'SKa', 'STear', 'SNotify', 'SFClose', 'EIncoming', 'EConnectFail', 'ETick') if res.coverage.get(a, 0) == 0]
    if never:
        raise tlc.TLCError(f'ExaPeerLoop: actions never taken (vacuous model): {never}')
    for variant in PL_VARIANTS[ck.prop]:
        open(path, 'w').write(_pl_cfg(budget if variant != 'NoHoldTimer' else 2, False, variant))
        bad = tlc.run('ExaPeerLoop', path, f'pl-mc-{variant}-{ck.prop}', workers=16, timeout=3000)
        ck.tlc(bad, f'ExaPeerLoop with {variant} = TRUE (must be rejected)')
        if bad.violated_invariant != 'NoViolation':
            raise tlc.TLCError(f'ExaPeerLoop variant {variant} was not rejected: the invariant NoViolation is vacuous for it')
        ck.notes.append(f'ExaPeerLoop variant {variant}: rejected by TLC (NoViolation) as required')
    tlc.cleanup(f'pl-mc-{ck.prop}')


def script_to_steps(script: list, coalesce: bool) -> list:
    """Environment script of ExaPeerLoop -> steps of direct().  A `refuse` is registered before the ticks that precede it
    (it only concerns the next connection attempt, which those ticks wait for)."""
    ev = [dict(e) for e in script]
    i = 0
    while i < len(ev):
        if ev[i]['do'] == 'refuse':
            j = i
            while j > 0 and ev[j - 1]['do'] == 'tick':
                j -= 1
            ev.insert(j, ev.pop(i))
        i += 1
    steps = []
    if not ev or ev[0]['do'] != 'refuse':
        steps.append({'do': 'sleep', 'ms': 5})
    warm = 0
    for k, e in enumerate(ev):
        do = e['do']
        handshake = False           # the model's free handshake (first valid OPEN, first KEEPALIVE after it) is always settled
        if do == 'send' and ((warm == 0 and e['cls'] == 'OPEN') or (warm == 1 and e['cls'] == 'KA')):
            warm += 1
            handshake = True
        if do == 'send':
            if e['cls'] == 'EOF':
                steps.append({'do': 'close'})
            elif TYPE_OPEN(e['cls']):
                steps.append({'do': 'send', 'cls': e['cls'], 'hold': e['hold'] // 1000})
            else:
                steps.append({'do': 'send', 'cls': e['cls']})
        elif do == 'tick':
            steps.append({'do': 'sleep', 'ms': e['ms']})
            continue
        elif do == 'teardown':
            steps.append({'do': 'teardown', 'code': e['code']})
        elif do == 'incoming':
            steps.append({'do': 'incoming'})
        elif do == 'refuse':
            steps.append({'do': 'refuse', 'n': 1})
        elif do == 'remove':
            steps.append({'do': 'remove', 'how': 'remove'})
        elif do == 'readd':
            steps.append({'do': 'readd'})
        nxt = ev[k + 1]['do'] if k + 1 < len(ev) else ''
        if not (coalesce and not handshake and nxt not in ('', 'tick', 'refuse') and do != 'refuse'):
            steps.append({'do': 'sleep', 'ms': 5})      # let the real system run to its next waiting point
    steps.append({'do': 'sleep', 'ms': 1500})
    return steps


def TYPE_OPEN(cls: str) -> bool:
    return cls.startswith('OPEN')


def _pl_enumerate(ck: Check, budget: int, ticks: str | None, label: str, cfghold: int = 9000) -> list:
    cfg = _pl_cfg(budget, True, ticks=ticks, cfghold=cfghold)
    res, vals = tlc.dump_var('ExaPeerLoop', 'gen.cfg', f'pl-gen-{ck.prop}-{budget}', 'script', cfg_text=cfg, timeout=3000)
    ck.tlc(res, f'ExaPeerLoop script enumeration (one per model state and last environment action), budget {budget} {label}')
    if not res.ok:
        raise tlc.TLCError('ExaPeerLoop enumeration failed: ' + res.out[-1500:])
    scripts = {tuple((e['do'], e['cls'], e['hold'], e['ms'], e['code']) for e in v) for v in vals}
    prefixes = {s[:i] for s in scripts for i in range(len(s))}
    maximal = sorted(s for s in scripts if s not in prefixes)
    ck.notes.append(f'ExaPeerLoop budget {budget}: {res.distinct} model states, {len(scripts)} distinct environment scripts, {len(maximal)} maximal')
    return maximal


def _pl_simulate(ck: Check, budget: int, n: int, seed: int) -> list:
    """random behaviours of the closed model (tlc -simulate) where enumerating every state is too much: their environment scripts"""
    d = tlc.workdir(f'pl-sim-{ck.prop}')
    path = os.path.join(d, 'sim.cfg')
    open(path, 'w').write(_pl_cfg(budget, False).replace('VIEW PView\n', ''))
    walks = tlc.simulate('ExaPeerLoop', path, f'pl-sim-run-{ck.prop}', num=n, depth=70, seed=seed + 1, timeout=3000)
    out = set()
    for b in walks:
        if b:
            script = b[-1][2].get('script')
            if isinstance(script, list) and script:
                out.add(tuple((e['do'], e['cls'], e['hold'], e['ms'], e['code']) for e in script))
    ck.notes.append(f'ExaPeerLoop budget {budget}: {len(walks)} random behaviours (tlc -simulate), {len(out)} distinct environment scripts')
    tlc.cleanup(f'pl-sim-{ck.prop}')
    return sorted(out)


def peerloop_scripts(ck: Check, tier: str, seed: int) -> list:
    """(G) environment scripts generated by TLC from the closed model: one per distinct model state and last environment
    action, maximal ones only.  quick: every script of budget 1 (one counted environment action on top of the free
    handshake and timer ticks) + a seeded sample of budget 2; thorough: every script of budget 1 (all ticks) and of budget 2 (three tick lengths), each in both concretisations, + a seeded sample of budget 3."""
    rnd = random.Random(seed)
    if tier == 'quick':
        chosen = _pl_enumerate(ck, 1, None, 'all ticks')
        n_both = len(chosen)
        more = _pl_enumerate(ck, 2, '{150, 3100, 61000}', 'ticks 150/3100/61000')
        # always: the pure event sequences (time only passes after the last event) on the 9 s session; a seeded sample of the others
        def core(x):                # the script without its trailing (free) ticks
            y = list(x)
            while y and y[-1][0] == 'tick':
                y.pop()
            return y
        always = [x for x in more if not any(e[0] == 'tick' for e in core(x)) and all(e[2] == 9000 for e in x if e[1] == 'OPEN')]
        rest = sorted(set(more) - set(always))
        chosen += always + rnd.sample(rest, min(len(rest), 500))
    else:
        chosen = _pl_enumerate(ck, 1, None, 'all ticks') + _pl_enumerate(ck, 2, '{150, 3100, 61000}', 'ticks 150/3100/61000')
        chosen = sorted(set(chosen))
        n_both = 0
        chosen += _pl_simulate(ck, 3, 3000, seed)
    # the same machine configured with hold-time 0 (no timers whatever the peer offers): every script of budget 1 / 2
    zero = _pl_enumerate(ck, 1 if tier == 'quick' else 2, None, 'configured hold time 0', cfghold=0)
    out = []
    for n, (s, cfghold) in enumerate([(x, 9) for x in chosen] + [(x, 0) for x in zero]):
        script = [dict(zip(('do', 'cls', 'hold', 'ms', 'code'), e)) for e in s]
        horizon = sum(e['ms'] for e in script) + 20_000
        compact = ';'.join(
            (e['cls'] + (f"/{e['hold'] // 1000}" if TYPE_OPEN(e['cls']) else '')) if e['do'] == 'send'
            else f"tick{e['ms']}" if e['do'] == 'tick' else f"teardown{e['code']}" if e['do'] == 'teardown' else e['do']
            for e in script
        )
        adjacent = any(a['do'] not in ('tick', 'refuse') and b['do'] not in ('tick', 'refuse') for a, b in zip(script, script[1:]))
        # two concretisations of one environment script: the system is given 5 ms (virtual) to run between two actions, or
        # consecutive actions happen with nothing in between (one TCP segment, one 100 ms poll window)
        settled = not (tier == 'quick' and adjacent and n_both <= n < len(chosen))
        if settled:
            out.append((f'model{cfghold}:{compact}', script_to_steps(script, False), {'horizon_ms': horizon, 'hold': cfghold}))
        if adjacent:
            out.append((f'model{cfghold}:{compact}/coalesced', script_to_steps(script, True), {'horizon_ms': horizon, 'hold': cfghold}))
    return out


# ------------------------------------------------------------------------------------------------------------
# conformance of the recorded traces with the control flow of ExaPeerLoop (Trace_ExaPeerLoop)

PL_TRACE_CFG = """SPECIFICATION TraceSpec
CONSTANTS
  G = 1250
  OpenWait = 60000
  CfgHold = {cfghold}
  Offers = {{9000}}
  SendClasses = {{"OPEN"}}
  Ticks = {{1}}
  TearCodes = {{2}}
  Budget = 1000000
  EdgeCover = FALSE
  EstablishEarly = FALSE
  NoHoldTimer = FALSE
  AnswerNotification = FALSE
  StarveAccepted = FALSE
  WithRemove = FALSE
VIEW TView
INVARIANT Progress
POSTCONDITION Reached
CHECK_DEADLOCK FALSE
"""


def with_time(lines: list) -> list:
    """one explicit `time` line wherever the virtual clock moved (the model's steps take no time)"""
    out, t = [], 0
    for ln in lines:
        if ln['e'] == 'Begin':
            t = 0
        elif ln['t'] != t:
            t = ln['t']
            out.append(dict(FIELDS, tid=ln['tid'], e='time', t=t))
        out.append(ln)
    return out


def conform(traces: dict, cfghold_ms: int, label: str):
    """traces: tid -> normalised lines.  -> (accepted tids, {tid: (line index, event)} for the traces TLC could not follow, TLC results)"""
    pending = dict(traces)
    drift, results = {}, []
    for _ in range(12):
        if not pending:
            break
        order = sorted(pending)
        lines, owner = [], []
        for tid in order:
            tl = with_time(pending[tid])
            lines += tl
            owner += [tid] * len(tl)
        path = os.path.join(tlc.WORK, f'plt-{label}.ndjson')
        with open(path, 'w') as f:
            for ln in lines:
                f.write(json.dumps(ln) + '\n')
        cfg = os.path.join(tlc.WORK, f'plt-{label}.cfg')
        open(cfg, 'w').write(PL_TRACE_CFG.format(cfghold=cfghold_ms))
        res = tlc.run('Trace_ExaPeerLoop', cfg, f'plt-{label}', workers=1, env={'TRACE_FILE': path}, timeout=1800)
        results.append(res)
        reached = [v for v in res.printed() if v[1] == 'reached']
        os.unlink(path)
        if not reached:
            raise tlc.TLCError('Trace_ExaPeerLoop did not finish: ' + res.out[-2500:])
        at = reached[-1][2]
        if at >= len(lines) + 1:
            break
        tid = owner[at - 1]
        drift[tid] = (at, {k: v for k, v in lines[at - 1].items() if v not in ('', 0) or k == 't'})
        del pending[tid]
    return [t for t in traces if t not in drift], drift, results


def conformance(ck: Check, lines: list, meta: dict, label: str) -> None:
    """Every recorded trace against the control flow of ExaPeerLoop (Trace_ExaPeerLoop).  A trace TLC cannot follow is a DRIFT
    between model and code: noted in the evidence and printed, never a violation of the property (exit code unchanged)."""
    by_tid: dict = {}
    for ln in lines:
        by_tid.setdefault(ln['tid'], []).append(ln)
    groups: dict = {}
    skipped = 0
    for tid, tl in by_tid.items():
        name, steps, kw = meta[tid]
        if kw.get('passive'):
            skipped += 1        # not modelled: passive mode
            continue
        groups.setdefault(kw.get('hold', 9), {})[tid] = tl
    accepted = 0
    for hold, traces in sorted(groups.items()):
        ok, drift, results = conform(traces, hold * 1000, f'{label}-h{hold}')
        accepted += len(ok)
        for r in results[-1:]:
            ck.tlc(r, f'Trace_ExaPeerLoop {label}: control-flow conformance of {len(traces)} traces (configured hold {hold} s)')
        for tid, (at, ev) in drift.items():
            msg = f'DRIFT (model/code control flow, not a property verdict): scenario {meta[tid][0]}: Trace_ExaPeerLoop cannot follow event {ev}'
            print(msg)
            ck.notes.append(msg)
    ck.cov['traces_conforming_to_ExaPeerLoop'] = ck.cov.get('traces_conforming_to_ExaPeerLoop', 0) + accepted
    ck.cov['traces_not_checked_for_conformance'] = ck.cov.get('traces_not_checked_for_conformance', 0) + skipped
