"""C10 - see DESIGN.md section 5."""

from __future__ import annotations

from harness import sessioncheck
from harness.common import Check, seed


def run(tier: str) -> int:
    ck = Check('C10', tier, 'model_checking')
    ck.cov['rule'] = (
        'cases = scenarios (fault class x session state table, connection events, teardown codes, arrival-time sequences per hold '
        'time, seeded fault sequences with split deliveries) executed on the real Peer coroutine under a virtual clock; every '
        'recorded event is a step of Trace_ExaSession and TLC reports each violated clause of C10; distinct = distinct scenario scripts; '
        'non-trivial = at least two scripted steps'
    )
    ck.assumptions += [
        'one neighbour, IPv4 transport emulated by a socketpair (delivery immediate and ordered), asyncio reactor path',
        'timer granularity G = 1250 ms (whole-second timers + 100 ms poll), open-wait 60 s',
        'observation points wrapped from outside: FSM.change, Connection.writer_async/close, Protocol.read_message, reactor.processes',
    ]
    sessioncheck.model_check(ck, tier)
    sessioncheck.run_family(ck, sessioncheck.all_scenarios(tier, seed()), 'C10', 'c10' + tier[0])
    return ck.finish()


def replay(path: str) -> int:
    return sessioncheck.replay_case(path, 'C10')
