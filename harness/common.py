"""Shared plumbing: evidence files, replay files, known findings, verdict printing (stdlib only)."""

from __future__ import annotations

import hashlib
import json
import os
import sys
import time

VERIF = os.path.dirname(os.path.dirname(os.path.abspath(__file__)))
EVIDENCE = os.path.join(VERIF, 'evidence')
REPLAYS = os.path.join(VERIF, 'replays')
KNOWN = os.path.join(VERIF, 'known_findings.jsonl')
REPO = os.environ.get('VERIF_REPO', '/repo')


def seed() -> int:
    try:
        return int(os.environ.get('VERIF_SEED', '0'))
    except ValueError:
        return 0


def load_known(prop: str) -> list[dict]:
    out = []
    if os.path.exists(KNOWN):
        for line in open(KNOWN):
            line = line.strip()
            if not line or line.startswith('#'):
                continue
            rec = json.loads(line)
            if rec.get('property') == prop and rec.get('status') == 'known':
                out.append(rec)
    return out


def fp_match(known_fp: dict, fp: dict) -> bool:
    """A violation matches a known finding when every field of the finding's fingerprint equals the violation's."""
    return all(fp.get(k) == v for k, v in known_fp.items())


class Check:
    """Collects what one run of one property check covered and found; writes evidence; prints the verdict lines."""

    def __init__(self, prop: str, tier: str, level: str) -> None:
        self.prop = prop
        self.tier = tier
        self.level = level
        self.t0 = time.time()
        self.cov: dict = {'evaluations': 0, 'distinct_nontrivial': 0, 'samples': [], 'exhaustive': False}
        self.assumptions: list[str] = []
        self.violations: list[dict] = []  # {'fp': {...}, 'what': str, 'replay': {...}}
        self.known = load_known(prop)
        self.notes: list[str] = []
        self._distinct: set = set()

    # -- coverage accounting ----------------------------------------------------------------
    def count(self, case, nontrivial: bool = True) -> None:
        self.cov['evaluations'] += 1
        if nontrivial:
            h = hashlib.sha1(json.dumps(case, sort_keys=True, default=str).encode()).digest()[:8]
            self._distinct.add(h)

    def sample(self, case) -> None:
        if len(self.cov['samples']) < 3:
            self.cov['samples'].append(case)

    def tlc(self, res, label: str) -> None:
        self.cov['states'] = self.cov.get('states', 0) + res.distinct
        self.cov['transitions'] = self.cov.get('transitions', 0) + res.generated
        self.cov.setdefault('tlc_runs', []).append(
            {'run': label, 'distinct_states': res.distinct, 'generated': res.generated, 'depth': res.depth, 'wall_s': round(res.wall, 1)}
        )

    # -- violations ---------------------------------------------------------------------------
    def violation(self, fp: dict, what: str, replay: dict) -> None:
        for v in self.violations:
            if v['fp'] == fp:
                v['count'] = v.get('count', 1) + 1
                return
        self.violations.append({'fp': fp, 'what': what, 'replay': replay, 'count': 1})

    def finish(self) -> int:
        os.makedirs(EVIDENCE, exist_ok=True)
        new = []
        known_hit = []
        for v in self.violations:
            hit = next((k for k in self.known if fp_match(k['fingerprint'], v['fp'])), None)
            if hit:
                known_hit.append((hit, v))
            else:
                new.append(v)
        printed = set()
        for hit, v in known_hit:
            key = json.dumps(hit['fingerprint'], sort_keys=True)
            if key in printed:
                continue
            printed.add(key)
            print(f'KNOWN-FINDING: property={self.prop} {hit["what"]}')
        rc = 0
        if new:
            os.makedirs(REPLAYS, exist_ok=True)
            summary = {}
            for v in new:
                c = v['fp'].get('clause') or v['fp'].get('rule') or v['fp'].get('kind') or '?'
                summary[c] = summary.get(c, 0) + 1
            print('violation classes:', json.dumps(summary, sort_keys=True))
            for v in new[:20]:
                h = hashlib.sha1(json.dumps(v['fp'], sort_keys=True, default=str).encode()).hexdigest()[:10]
                path = os.path.join(REPLAYS, f'{self.prop}-{h}.json')
                json.dump({'property': self.prop, 'fingerprint': v['fp'], 'what': v['what'], 'seed': seed(), 'tier': self.tier, 'case': v['replay']}, open(path, 'w'), indent=1, default=str)
                print(f'VIOLATION property={self.prop} replay={path}')
                print(f'  {v["what"]}')
            rc = 1
        self.cov['distinct_nontrivial'] = len(self._distinct)
        ev = {
            'property_id': self.prop,
            'tier': self.tier,
            'seed': seed(),
            'level': self.level,
            'coverage': self.cov,
            'assumptions': self.assumptions,
            'wall_s': round(time.time() - self.t0, 2),
            'violations': len(new),
            'known_findings_seen': len(printed),
            'notes': self.notes,
        }
        json.dump(ev, open(os.path.join(EVIDENCE, f'{self.prop}.json'), 'w'), indent=1, default=str)
        print(
            f'{self.prop} {self.tier}: evaluations={self.cov["evaluations"]} distinct={self.cov["distinct_nontrivial"]} '
            f'states={self.cov.get("states", 0)} violations={len(new)} known={len(printed)} wall={ev["wall_s"]}s'
        )
        return rc


def machinery_failure(prop: str, msg: str) -> int:
    print(f'MACHINERY-FAILURE property={prop}: {msg}', file=sys.stderr)
    return 2
