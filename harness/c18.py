"""C18 - route text is accepted if and only if it can be sent."""

from __future__ import annotations

import json
import os
import random

os.environ.setdefault('exabgp_log_enable', 'false')

from exabgp.bgp.message.update.collection import RoutedNLRI, UpdateCollection
from exabgp.configuration.configuration import Configuration
from exabgp.rib import RIB

from harness import tlc, updcheck
from harness.apidrv import ApiWorld
from harness.common import Check, seed
from harness.outcheck import OutSession

FAMILIES = 'ipv4 unicast; ipv6 unicast; ipv4 nlri-mpls; ipv4 mpls-vpn; ipv4 flow; ipv6 flow; l2vpn vpls;'
PEER_MP = ((1, 1), (2, 1), (1, 4), (1, 128), (1, 133), (2, 133), (25, 65))
R = 'route 10.0.0.0/24 next-hop 1.2.3.4 '
F4 = 'flow route {{ match {{ destination 10.0.0.0/24; {m} }} then {{ {t} }} }}'
F6 = 'flow route {{ match {{ destination 2001:db8::/32; {m} }} then {{ discard; }} }}'
V = 'vpls rd 65000:1 endpoint {ep} base {base} offset {off} size {size} next-hop 1.2.3.4'
TEMPLATE = {
    'med': R + 'med {N}', 'pref': R + 'local-preference {N}', 'aspath': R + 'as-path [ {N} ]',
    'commhi': R + 'community [ {N}:1 ]', 'commlo': R + 'community [ 1:{N} ]', 'commnum': R + 'community [ {N} ]',
    'large1': R + 'large-community [ {N}:2:3 ]', 'large2': R + 'large-community [ 1:{N}:3 ]', 'large3': R + 'large-community [ 1:2:{N} ]',
    'rt2local': R + 'extended-community [ target:65000:{N} ]', 'rt4local': R + 'extended-community [ target:4200000000:{N} ]',
    'rt4admin': R + 'extended-community [ target:{N}:1 ]', 'rtiplocal': R + 'extended-community [ target:1.2.3.4:{N} ]',
    'label': R + 'label {N}', 'label2': R + 'label [ 100 {N} ]', 'label1': R + 'label [ {N} 100 ]',
    'rd0local': R + 'rd 65000:{N} label 100', 'rdadmin': R + 'rd {N}:1 label 100', 'rd1local': R + 'rd 1.2.3.4:{N} label 100', 'rd2local': R + 'rd 4200000000:{N} label 100',
    'pathid': R + 'path-information {N}', 'aggras': R + 'aggregator ( {N}:1.2.3.4 )',
    'attrcode': R + 'attribute [ {X} 0xc0 0x0102 ]', 'attrflag': R + 'attribute [ 0xfa {X} 0x0102 ]', 'sidindex': R + 'bgp-prefix-sid [ {N} ]',
    'mask4': 'route 10.0.0.0/{N} next-hop 1.2.3.4', 'mask6': 'route 2001:db8::/{N} next-hop 2001:db8::1',
    'fproto': F4.format(m='protocol ={N};', t='discard;'), 'fport': F4.format(m='port ={N};', t='discard;'), 'fdport': F4.format(m='destination-port ={N};', t='discard;'),
    'fitype': F4.format(m='icmp-type ={N};', t='discard;'), 'ficode': F4.format(m='icmp-code ={N};', t='discard;'), 'fdscp': F4.format(m='dscp ={N};', t='discard;'),
    'fplen': F4.format(m='packet-length ={N};', t='discard;'), 'fmask': F4.format(m='source 10.0.0.0/{N};', t='discard;'),
    'fmark': F4.format(m='protocol =6;', t='mark {N};'), 'fredirlocal': F4.format(m='protocol =6;', t='redirect 65500:{N};'),
    'ftclass': F6.format(m='traffic-class ={N};'), 'flabel': F6.format(m='flow-label ={N};'),
    'vep': V.format(ep='{N}', base=100, off=1, size=8), 'vbase': V.format(ep=5, base='{N}', off=1, size=1),
    'voff': V.format(ep=5, base=100, off='{N}', size=8), 'vsize': V.format(ep=5, base=100, off=1, size='{N}'),
    'nhoct': 'route 10.0.0.0/24 next-hop 1.2.3.{N}', 'pfxoct': 'route 10.0.{N}.0/24 next-hop 1.2.3.4', 'origoct': R + 'originator-id 10.0.0.{N}',
    'clusteroct': R + 'cluster-list [ 10.0.0.{N} ]', 'aggroct': R + 'aggregator ( 65000:1.2.3.{N} )', 'rd1oct': R + 'rd 1.2.3.{N}:5 label 100',
    'rtipoct': R + 'extended-community [ target:1.2.3.{N}:5 ]', 'pathidoct': R + 'path-information 1.2.3.{N}',
    'vnhoct': 'vpls rd 65000:1 endpoint 5 base 100 offset 1 size 8 next-hop 1.2.3.{N}', 'fdstoct': 'flow route {{ match {{ destination 10.0.{N}.0/24; }} then {{ discard; }} }}'.format(N='{N}'),
    'rdplain': R + 'rd {N} label 100', 'vrdplain': 'vpls rd {N} endpoint 5 base 100 offset 1 size 8 next-hop 1.2.3.4',
    'frdplain': 'flow route {{ rd {N}; match {{ destination 10.0.0.0/24; }} then {{ discard; }} }}'.format(N='{N}'),
    'aggrplain': R + 'aggregator ( {N} )', 'rtplain': R + 'extended-community [ target:{N} ]', 'largetwo': R + 'large-community [ {N}:2 ]',
    'nhnum': 'route 10.0.0.0/24 next-hop {N}', 'sidplain': R + 'bgp-prefix-sid {N}', 'sidsrv6plain': R + 'bgp-prefix-sid-srv6 {N}',
}
BITS = {'b1': 8, 'b2': 16, 'b4': 32, 'bits20': 20, 'bits6': 6}


LADDER = {'eclen': {'low': 8, 'max': 8, 'over': 9, 'huge': 70, 'neg': 7, 'junk': 1}, 'alen': {'max': 255, 'over': 256, 'neg': 4090, 'junk': 65535, 'huge': 65536}, 'ccount': {'max': 63, 'over': 64, 'neg': 1100, 'junk': 16383, 'huge': 16384}}


def number(cap: str, low: int, val: str):
    if cap in LADDER:
        return LADDER[cap].get(val, low)
    mx = {'len32': 32, 'len128': 128}.get(cap) or (1 << BITS[cap]) - 1
    return {'low': low, 'max': mx, 'over': mx + 1, 'huge': (1 << 64) + 5, 'neg': -1, 'junk': None}[val]


def text_of(u: dict, cap: str, low: int) -> str:
    n = number(cap, low, u['val'])
    if u['field'] == 'attrlen':
        return R + 'attribute [ 0xc8 0xc0 0x' + 'ab' * n + ' ]'
    if u['field'] == 'echexlen':
        return R + 'extended-community [ 0x' + (bytes([0, 2, 253, 232, 0, 0, 0, 1]) + bytes(range(2, 64)))[:n].hex() + ' ]'
    if u['field'] == 'commcount':
        return R + 'community [ ' + ' '.join(f'{1 + i // 60000}:{i % 60000}' for i in range(n)) + ' ]'
    tpl = TEMPLATE[u['field']]
    if n is None:
        return tpl.replace('{N}', 'x7').replace('{X}', '0xzz')
    return tpl.replace('{N}', str(n)).replace('{X}', ('-' if n < 0 else '') + hex(abs(n)))


def file_text(text: str) -> str:
    if text.startswith('flow '):
        section = 'flow { ' + text[5:] + ' }'
    elif text.startswith('vpls '):
        section = 'l2vpn { ' + text + '; }'
    else:
        section = 'static { ' + text + '; }'
    return f"""neighbor 127.0.0.1 {{
  router-id 1.2.3.4;
  local-address 127.0.0.2;
  local-as 65000;
  peer-as 65001;
  family {{ {FAMILIES} }}
  {section}
}}
"""


class Worlds:
    def __init__(self, version: int = 6) -> None:
        self.version = version
        self.api = ApiWorld(api_version=version, families=FAMILIES)
        kw = dict(families=FAMILIES, peer_mp=PEER_MP)
        self.sessions = {
            'e4': OutSession(False, False, True, True, True, **kw),
            'e2': OutSession(False, False, False, False, False, **kw),
            'i4': OutSession(True, False, True, False, False, **kw),
        }

    def close(self) -> None:
        self.api.close()


def offer(w: Worlds, src: str, text: str):
    """-> (outcome, routes, detail)"""
    if src == 'api':
        a = w.api
        for nb in a.conf.neighbors.values():
            nb.rib.outgoing.clear()
        a.replies = b''
        try:
            a.write((('peer * announce ' if w.version == 6 else 'announce ') + text + '\n').encode())
            for _ in range(4):
                a.cycle()
        except Exception as exc:  # noqa: BLE001 - the observation is precisely "did anything escape"
            return 'raised', [], type(exc).__name__ + ': ' + str(exc)[:120]
        reply = a.replies.decode('ascii', 'replace')
        nb = next(iter(a.conf.neighbors.values()))
        routes = list(nb.rib.outgoing.queued_routes())
        if 'done' in reply and 'error' not in reply:
            return 'accepted', routes, reply.strip()[:120]
        if 'error' in reply:
            return 'refused', [], reply.strip().replace('\n', ' | ')[:160]
        return 'silent', [], reply[:80]
    RIB._cache.clear()
    conf = Configuration([file_text(text)], text=True)
    try:
        ok = conf.reload()
    except Exception as exc:  # noqa: BLE001
        return 'raised', [], type(exc).__name__ + ': ' + str(exc)[:120]
    if not ok:
        return 'refused', [], str(conf.error).replace('\n', ' ')[:160]
    nb = next(iter(conf.neighbors.values()))
    return 'accepted', list(nb.rib.outgoing.queued_routes()), ''


def encode_all(w: Worlds, routes) -> tuple[dict, dict, str]:
    enc, wire, detail = {}, {}, ''
    for name, s in w.sessions.items():
        if not routes:
            enc[name], wire[name] = 'nothing', []
            continue
        try:
            out = b''
            for r in routes:
                for m in UpdateCollection([RoutedNLRI(r.nlri, r.nexthop)], [], r.attributes).messages(s.neg, True):
                    out += bytes(m)
            enc[name], wire[name] = ('ok' if out else 'nothing'), list(out)
        except Exception as exc:  # noqa: BLE001
            enc[name], wire[name] = 'raised', []
            detail = type(exc).__name__ + ': ' + str(exc)[:100]
    return enc, wire, detail


def execute(w: Worlds, u: dict, cap: str, low: int) -> dict:
    text = text_of(u, cap, low)
    outcome, routes, detail = offer(w, u['src'], text)
    enc, wire, d2 = encode_all(w, routes) if outcome == 'accepted' else ({s: 'nothing' for s in w.sessions}, {s: [] for s in w.sessions}, '')
    lastresort = outcome == 'refused' and ('Unexpected error' in detail or 'file line 0 ' in detail)
    return {'u': u, 'outcome': outcome, 'lastresort': lastresort, 'enc': enc, 'wire': wire, '_text': text, '_detail': detail or d2}


def run(tier: str) -> int:
    ck = Check('C18', tier, 'model_checking')
    ck.cov['rule'] = (
        'cases = rows of the ExaText table enumerated by TLC (numeric position of the route / flow / vpls grammar x value class low, max, max+1, '
        '2^64+5, -1, non-numeric x offered on the API command path or in a configuration file); each text goes through the real command path '
        '(pipe -> dispatch -> reply) or Configuration.reload(); accepted definitions are encoded by UpdateCollection.messages for three kinds of '
        'session negotiated through real OPENs; TLC (Judge_ExaText) checks accepted <=> the wire format holds the value, nothing raised, and that '
        'the bytes the RFC gives for the value appear in what was sent; distinct = distinct rows'
    )
    ck.assumptions += ['one numeric position varied at a time around a valid definition; 65 positions (43 numbers, 10 octets of dotted addresses, 9 lone numbers where a pair, a list or an address is expected, 3 length ladders); sessions: eBGP asn4+add-path, eBGP 2-byte peer, iBGP',
                       'a refusal must come from the parser (located syntax error / error reply), not from the last-resort handler which reports an unexpected exception ("Unexpected error: <Exception>" on the API, "problem parsing configuration file line 0" for a file)']
    res, states = tlc.dump_states('Gen_ExaText', '', 'c18gen', ['u', 'frags'], cfg_text='SPECIFICATION GenSpec\nINVARIANT TableOK\nCHECK_DEADLOCK FALSE\n', workers=8)
    ck.tlc(res, 'Gen_ExaText: rows and expected fragments; invariant TableOK')
    if not res.ok:
        raise tlc.TLCError('Gen_ExaText: ' + res.out[-1500:])
    caps, lows = table()
    lines = []
    catchall = 0
    ordered = sorted(states, key=lambda s: json.dumps(s['u'], sort_keys=True))
    # acceptance must not depend on what was offered before: thorough replays the table in other orders and on the v4 API
    passes = [('sorted', 6, ordered)]
    if tier == 'thorough':
        rnd = random.Random(seed())
        passes.append(('reversed', 6, ordered[::-1]))
        for k in range(4):
            sh = ordered[:]
            rnd.shuffle(sh)
            passes.append((f'shuffled-{k}', 4 if k % 2 else 6, sh))
    for label, version, rows in passes:
        w = Worlds(version)
        try:
            for st in rows:
                u = st['u']
                out = execute(w, u, caps[u['field']], lows[u['field']])
                out['id'] = len(lines)
                out['_pass'] = label
                lines.append(out)
                ck.count({'u': u, 'pass': label})
                catchall += out['lastresort']
                if u['val'] == 'max' and len(ck.cov['samples']) < 3:
                    ck.sample({'row': u, 'text': out['_text'], 'outcome': out['outcome'], 'sent_e4': bytes(out['wire']['e4']).hex()[:160]})
        finally:
            w.close()
    ck.notes.append(f'{catchall} rows were answered by the last-resort exception handler')
    bad, jres = updcheck.judge([{k: v for k, v in ln.items() if not k.startswith('_')} for ln in lines], 'Judge_ExaText', 'c18' + tier[0])
    ck.tlc(jres, f'Judge_ExaText: {len(lines)} rows')
    ck.cov['traces_validated_against_impl'] = len(lines)
    ck.cov['exhaustive'] = True
    for b in bad:
        ln = lines[b['id']]
        for clause in b['clauses']:
            ck.violation({'clause': clause, 'field': ln['u']['field'], 'val': ln['u']['val']},
                         f'{clause}: [{ln["u"]["src"]} {ln["_pass"]}] {ln["_text"]} -> {ln["outcome"]} {ln["_detail"]} enc={ln["enc"]} sent={bytes(ln["wire"]["e4"]).hex()[38:140]}',
                         {'u': ln['u'], 'clause': clause})
    return ck.finish()


def table():
    """capacity kind and low value per field: read from the specification (one source of truth)"""
    cfg = 'SPECIFICATION TSpec\nCHECK_DEADLOCK FALSE\n'
    mod = os.path.join(tlc.WORK, 'TableExaText.tla')
    open(mod, 'w').write('---- MODULE TableExaText ----\nEXTENDS ExaText\nVARIABLES t, z\nTSpec == t = [cap |-> Cap, low |-> Low] /\\ z = 0 /\\ [][UNCHANGED <<t, z>>]_<<t, z>>\n====\n')
    res, states = tlc.dump_states(mod, '', 'c18tab', ['t'], cfg_text=cfg, workers=1)
    t = states[0]['t']
    return t['cap'], t['low']


def replay_file(path: str) -> int:
    c = json.load(open(path))['case']
    caps, lows = table()
    w = Worlds()
    try:
        out = execute(w, c['u'], caps[c['u']['field']], lows[c['u']['field']])
    finally:
        w.close()
    out['id'] = 0
    bad, _ = updcheck.judge([{k: v for k, v in out.items() if not k.startswith('_')}], 'Judge_ExaText', 'replay')
    print(out['_text'], '->', out['outcome'], out['_detail'], out['enc'])
    if any(c['clause'] in b['clauses'] for b in bad):
        print(f'VIOLATION property=C18 replay={path}')
        return 1
    print('replay: property held on this case')
    return 0
