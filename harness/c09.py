"""C09 - generated UPDATEs fit the negotiated size and lose nothing."""

from __future__ import annotations

import ipaddress
import json
import random

from exabgp.bgp.message.update.collection import RoutedNLRI, UpdateCollection

from harness import outcheck, updcheck, wire
from harness.common import Check, seed

BASE = {'ext': False, 'addpath': False, 'v4over6': False, 'a4': '2', 'w4': '0', 'a6': '0', 'nh6': 1, 'w6': '0', 'room': 'large'}


def diff(u):
    return {k: v for k, v in u.items() if BASE.get(k) != v}


def attr_text(pad: int, extra: str) -> str:
    """ordinary attributes + an unknown optional transitive attribute of `pad` value bytes (pad < 0: none)"""
    gen = '' if pad < 0 else ' attribute [ 0xfa 0xc0 0x' + '00' * pad + ' ]'
    return f'med 10{extra}{gen}'


def key(fam, net, pid, nh=None):
    n = (net.prefixlen + 7) // 8
    k = [fam, net.prefixlen, list(net.network_address.packed[:n]), pid]
    return k + [list(ipaddress.ip_address(nh).packed)] if nh else k


def concretise(sess, case):
    """-> (announce RoutedNLRI list, withdraw NLRI list, attributes, reqA, reqW, ref message)"""
    conf = sess.conf
    max_len = 65535 if case['ext'] else 4096
    pid = 0 if case['addpath'] else -1

    def one(text):
        r = conf.parse_route_text(text)
        if not r:
            raise ValueError('harness route text refused: ' + text[:120])
        return sess.neighbor.resolve_self(r[0])

    def ref_for(ncomm, extra):
        r = one('route 10.0.1.0/24 next-hop 192.0.2.1 ' + attr_text(ncomm, extra))
        msgs = list(UpdateCollection([RoutedNLRI(r.nlri, r.nexthop)], [], r.attributes).messages(sess.neg, True))
        return r, msgs

    room = case['room']
    pad, extra = -1, ''
    if room == 'ext255':
        pad = 255
    elif room == 'ext256':
        pad = 256
    elif room[0] == 'p':
        pad = int(room[1:])
    elif room != 'large':
        # pad so that exactly k bytes are left for IPv4 prefixes after header, length fields and attributes
        k = -40 if room == 'neg' else int(room[1:])
        _, base_m = ref_for(-1, '')
        base_len = len(wire_attrs(base_m[0]))
        want = max_len - 23 - k - base_len          # bytes the padding attribute must occupy, header included
        pad = want - 4 if want - 3 > 255 else want - 3
        if pad < 0:
            return None
        if room != 'neg':
            # check the padding on a reference 16 bytes shorter (the one with exactly k bytes left cannot carry the /24 of the
            # reference route when k < 4); both paddings are far above the 255/256 length switch, so the size is linear
            _, m = ref_for(pad - 16, '')
            if pad - 16 <= 256 or not m or max_len - 23 - len(wire_attrs(m[0])) - 16 != k:
                return None
    at = attr_text(pad, extra)
    ann, wd, req_a, req_w = [], [], [], []
    attrs = None
    n4 = {'0': 0, '1': 1, '2': 2, 'fill': 2300}[case['a4']]
    for i in range(n4):
        # two routes: a short prefix first, a longer one second (a message with room for the first only must not be overfilled by the second)
        net = ipaddress.ip_network('10.9.128.0/17') if i == 1 else ipaddress.ip_network('11.0.0.0/8') if (i == 0 and n4 == 2) else ipaddress.ip_network(f'10.{1 + i // 250}.{i % 250}.0/24')
        nh4 = '2001:db8::4' if case['v4over6'] else '192.0.2.1'
        r = one(f'route {net} next-hop {nh4} {at}')
        attrs = attrs or r.attributes
        ann.append(RoutedNLRI(r.nlri, r.nexthop))
        req_a.append(key('v4u', net, pid, nh4))
    n6 = 640 if case['a6'] == 'fill' else int(case['a6'])
    for i in range(n6):
        # three routes: a short prefix first, then /48s (an attribute with room for the first only must not be overfilled)
        net = ipaddress.ip_network('2001::/16') if (i == 0 and n6 == 3) else ipaddress.ip_network(f'2001:db8:{i + 1:x}::/48')
        nh = '2001:db8::1' if (case['nh6'] == 1 or i % 2 == 0) else '2001:db8::9'
        r = one(f'route {net} next-hop {nh} {at}')
        if attrs is None:
            attrs = r.attributes
        ann.append(RoutedNLRI(r.nlri, r.nexthop))
        req_a.append(key('v6u', net, pid, nh))
    nw4 = {'0': 0, '1': 1, 'fill': 1500}[case['w4']]
    for i in range(nw4):
        net = ipaddress.ip_network(f'172.{16 + i // 250}.{i % 250}.0/24')
        r = one(f'route {net} next-hop 192.0.2.1')
        wd.append(r.nlri)
        req_w.append(key('v4u', net, pid))
    for i in range(640 if case['w6'] == 'fill' else int(case['w6'])):
        net = ipaddress.ip_network(f'2001:db9:{i + 1:x}::/48')
        r = one(f'route {net} next-hop 2001:db8::1')
        wd.append(r.nlri)
        req_w.append(key('v6u', net, pid))
    if attrs is None:
        attrs = one(f'route 10.0.1.0/24 next-hop 192.0.2.1 {at}').attributes
    ref_r = one(f'route 10.0.1.0/24 next-hop 192.0.2.1 {at}')
    if room.startswith('k') and int(room[1:]) < 4:
        # no /24 fits next to these attributes: the reference is the attribute block alone (an UPDATE without NLRI)
        ab = bytes(ref_r.attributes.pack_attribute(sess.neg, True))
        body = b'\x00\x00' + len(ab).to_bytes(2, 'big') + ab
        return ann, wd, attrs, req_a, req_w, b'\xff' * 16 + (19 + len(body)).to_bytes(2, 'big') + b'\x02' + body
    if room == 'neg':
        # a reference that fits: the same attributes cannot be encoded at all, use the unpadded ones (only Fits/Parses matter)
        ref_r = one('route 10.0.1.0/24 next-hop 192.0.2.1 ' + attr_text(-1, extra))
    ref = list(UpdateCollection([RoutedNLRI(ref_r.nlri, ref_r.nexthop)], [], ref_r.attributes).messages(sess.neg, True))
    if not ref:
        return None
    return ann, wd, attrs, req_a, req_w, ref[0]


def wire_attrs(msg: bytes) -> bytes:
    body = msg[19:]
    wl = int.from_bytes(body[:2], 'big')
    al = int.from_bytes(body[2 + wl : 4 + wl], 'big')
    return body[4 + wl : 4 + wl + al]


def execute(sessions, case) -> dict | None:
    k = (case['addpath'], case['ext'], case['v4over6'])
    if k not in sessions:
        sessions[k] = outcheck.OutSession(False, False, True, case['addpath'], case['ext'], extnh=case['v4over6'])
    sess = sessions[k]
    conc = concretise(sess, case)
    if conc is None:
        return None
    ann, wd, attrs, req_a, req_w, ref = conc
    out = {'reqA': req_a, 'reqW': req_w, 'ref': list(ref), 'msgs': [], 'error': ''}
    try:
        out['msgs'] = [list(m) for m in UpdateCollection(ann, wd, attrs).messages(sess.neg, True)]
    except Exception as exc:
        out['error'] = type(exc).__name__ + ': ' + str(exc)[:150]
    return out


def run(tier: str) -> int:
    ck = Check('C09', tier, 'model_checking')
    ck.cov['rule'] = (
        'cases = descriptors enumerated by TLC (Gen_ExaPack: sizes of the IPv4/IPv6 announce and withdraw sets incl. sets needing several '
        'messages, one or two IPv6 next hops, ADD-PATH, 4096/65535, and the room the attributes leave: plenty, exactly k bytes for k = 0..12, '
        'the 255/256 attribute-length switch, none), concretised with real route text and padded attributes; the messages yielded by the real '
        'UpdateCollection.messages() are decoded by TLC (ExaWire) and judged: Fits, Parses, OnlyRequested with own next hop, SameAttributes, '
        'Complete, NothingWhenNoRoom; distinct = distinct descriptors; non-trivial = differs from the base descriptor'
    )
    ck.assumptions += ['how routes are partitioned over messages is left free; a route repeated with identical content is tolerated']
    rnd = random.Random(seed())
    states = updcheck.gen_rows(ck, 'Gen_ExaPack', 1 if tier == 'quick' else 2, 'c09' + tier[0], invariants=('TableOK',))
    limit = 260 if tier == 'quick' else 1500
    ck.cov['exhaustive'] = len(states) <= limit
    if len(states) > limit:
        states = rnd.sample(states, limit)
    sessions, lines = {}, []
    skipped = 0
    for st in states:
        case = st['u']
        out = execute(sessions, case)
        if out is None:
            skipped += 1
            continue
        lines.append({'id': len(lines), 'case': case, **out})
        ck.count(case, nontrivial=bool(diff(case)))
        if len(lines) in (2, 20):
            ck.sample({'case': case, 'requested': [len(out['reqA']), len(out['reqW'])], 'message_lengths': [len(m) for m in out['msgs']], 'error': out['error']})
    ck.cov['cases_without_exact_padding'] = skipped
    bad, res = updcheck.judge(lines, 'Judge_ExaPack', 'c09' + tier[0])
    ck.tlc(res, f'Judge_ExaPack: {len(lines)} cases, {sum(len(l["msgs"]) for l in lines)} messages decoded by TLC')
    ck.cov['traces_validated_against_impl'] = len(lines)
    for b in bad:
        ln = lines[b['id']]
        for clause in b['clauses']:
            kind = 'other'
            if clause == 'C09-requested-withdraw-missing' and ln['case']['room'].startswith('k') and ln['case']['w6'] != '0':
                kind = 'mp-withdraw-travelling-with-attributes-that-leave-no-room'
            ck.violation({'clause': clause, 'kind': kind, 'case': diff(ln['case'])}, f'{clause}: case {ln["case"]}: {len(ln["msgs"])} messages of lengths {[len(m) for m in ln["msgs"]][:6]}; error={ln["error"]!r}',
                         {'case': ln['case'], 'clause': clause})
    return ck.finish()


def replay(path: str) -> int:
    case = json.load(open(path))['case']
    out = execute({}, case['case'])
    bad, _ = updcheck.judge([{'id': 0, 'case': case['case'], **out}], 'Judge_ExaPack', 'replay')
    print(case['case'], [len(m) for m in out['msgs']], out['error'])
    if any(case['clause'] in b['clauses'] for b in bad):
        print(f'VIOLATION property=C09 replay={path}')
        return 1
    print('replay: property held on this case')
    return 0
