"""Virtual-time asyncio event loop: the clock moves only when nothing is ready, by exactly the time the loop would
have slept.  Real sockets (socketpair) are polled with a zero timeout, so I/O is immediate and ordered."""

from __future__ import annotations

import asyncio
import selectors
import time as _time

BASE = 1_000_000.25  # small enough that 1e-7 is representable next to it


class Stuck(Exception):
    """Nothing is ready and no timer is pending: the system under test is wedged (or the script ended)."""


class Clock:
    def __init__(self) -> None:
        self.now = BASE

    def ms(self) -> int:
        return int(round((self.now - BASE) * 1000))


class _VSelector(selectors.DefaultSelector):
    def __init__(self, clock: Clock) -> None:
        super().__init__()
        self._clock = clock
        self.idle_spins = 0

    def select(self, timeout=None):  # type: ignore[override]
        events = super().select(0)
        if events:
            return events
        if timeout is None:
            raise Stuck('no ready I/O and no timer')
        # 100 us per idle iteration models CPU time and keeps sleep(0) loops from freezing the clock
        self._clock.now += max(timeout, 1e-4)
        return []


class VLoop(asyncio.SelectorEventLoop):
    def __init__(self, clock: Clock) -> None:
        self._vclock = clock
        super().__init__(_VSelector(clock))
        self._clock_resolution = 1e-7

    def time(self) -> float:  # type: ignore[override]
        return self._vclock.now


class patched_time:
    """Context manager: time.time()/time.monotonic() return the virtual clock."""

    def __init__(self, clock: Clock) -> None:
        self.clock = clock

    def __enter__(self):
        self._time, self._mono = _time.time, _time.monotonic
        _time.time = lambda: self.clock.now  # type: ignore[assignment]
        _time.monotonic = lambda: self.clock.now  # type: ignore[assignment]
        return self

    def __exit__(self, *exc):
        _time.time, _time.monotonic = self._time, self._mono  # type: ignore[assignment]
        return False
