"""C13 - API events stay well-formed whatever a peer sends."""

from __future__ import annotations

import json
import os
import struct

os.environ.setdefault('exabgp_log_enable', 'false')

from exabgp.bgp.message import Message, Open
from exabgp.bgp.message.direction import Direction
from exabgp.bgp.message.notification import Notify
from exabgp.bgp.message.open.capability.capabilities import Capabilities
from exabgp.bgp.message.open.capability.negotiated import Negotiated
from exabgp.bgp.message.open.version import Version
from exabgp.configuration.configuration import Configuration
from exabgp.environment import getenv
from exabgp.reactor.api import processes as processes_mod
from exabgp.reactor.api.processes import Processes
from exabgp.rib import RIB

from harness import bgpmsg, tlc, updcheck
from harness.apidrv import FakeProc
from harness.common import Check, seed

CONF = """
process svc {{ run /bin/true; encoder {enc}; }}
neighbor 127.0.0.2 {{
  router-id 1.2.3.4; local-address 127.0.0.1; local-as 65000; peer-as 65001; hold-time 90;
  family {{ ipv4 unicast; ipv6 unicast; bgp-ls bgp-ls; }}
  capability {{ operational enable; route-refresh enable; }}
  api {{ processes [ svc ]; neighbor-changes; negotiated; fsm; signal;
        receive {{ parsed; open; update; notification; keepalive; refresh; operational; }} }}
}}
"""

PAY = {
    'plain': b'core1', 'quote': b'a"b', 'bslash': b'a\\b', 'newline': b'a\nb', 'cr': b'a\rb', 'tab': b'a\tb', 'ctrl': b'a\x01b', 'del': b'a\x7fb',
    'nul': b'a\x00b', 'forge': b'x", "forged": "1', 'forge-event': b'x" } }\n{ "exabgp": "6.0.0", "type": "state", "neighbor": { "state": "down"',
    'utf8': 'café'.encode(), 'badutf8': b'a\xff\xfeb', 'brace': b'}{][', 'long': b'A' * 200,
}
ENVELOPE = {'exabgp', 'time', 'host', 'pid', 'ppid', 'counter', 'type'}


class World:
    def __init__(self, version: int, enc: str) -> None:
        RIB._cache.clear()
        getenv().api.version = version
        self.version = version
        self.conf = Configuration([CONF.format(enc=enc)], text=True)
        if not self.conf.reload():
            raise RuntimeError('harness configuration refused: %s' % self.conf.error)
        self.neighbor = list(self.conf.neighbors.values())[0]
        self.p = Processes()
        saved = processes_mod.subprocess.Popen
        processes_mod.subprocess.Popen = FakeProc
        try:
            self.p.start(self.conf.processes)
        finally:
            processes_mod.subprocess.Popen = saved
        self.p._async_mode = True   # what Reactor.run() sets: write() queues, flush_write_queue() drains (C13 pipe model)

        class _Peer:
            pass

        self.peer = _Peer()
        self.peer.neighbor = self.neighbor
        self.fresh_negotiated()

    def fresh_negotiated(self) -> None:
        n = self.neighbor
        self.neg = Negotiated.make_negotiated(n, Direction.IN)
        ours = Open.make_open(Version(4), n.session.local_as, n.hold_time, n.session.router_id, Capabilities().new(n, False))
        self.neg.sent(ours)
        caps = [bgpmsg.cap_mp(1, 1), bgpmsg.cap_mp(2, 1), bgpmsg.cap_mp(16388, 71), bgpmsg.cap_asn4(65001), bgpmsg.cap(73, b'\x02r1\x02ex')]
        raw = bgpmsg.open_msg(65001, 90, '5.6.7.8', caps, one_param_per_cap=True)
        self.neg.received(Message.unpack(1, raw[19:], self.neg))

    def drain(self) -> dict:
        out = {k: [bytes(x) for x in q] for k, q in self.p._write_queue.items()}
        for q in self.p._write_queue.values():
            q.clear()
        return out

    def close(self) -> None:
        for proc in self.p._process.values():
            for fd in (proc.to_exabgp, proc.from_exabgp):
                try:
                    os.close(fd)
                except OSError:
                    pass
            try:
                proc.stdout.close()
                proc.stdin.close()
            except OSError:
                pass


def tlv(t: int, v: bytes) -> bytes:
    return struct.pack('!HH', t, len(v)) + v


def _sst(t: int, v: bytes) -> bytes:
    return bytes([t]) + struct.pack('!H', len(v)) + v


def _srv6_sid_info(subsub: bytes) -> bytes:
    body = b'\x00' + bytes.fromhex('20010db8000100000000000000000001') + b'\x00' + struct.pack('!H', 0x13) + b'\x00' + subsub
    return _sst(1, body)


def _srv6_l3(subs: bytes) -> bytes:
    return _sst(5, b'\x00' + subs)


def build(kind: str, pay: bytes):
    """-> ('msg', type, body) | ('call', name)"""
    if kind.startswith('open-'):
        caps = [bgpmsg.cap_mp(1, 1), bgpmsg.cap_mp(2, 1), bgpmsg.cap_asn4(65001)]
        if kind == 'open-host':
            caps.append(bgpmsg.cap(73, bytes([len(pay)]) + pay + b'\x0bexample.org'))
        elif kind == 'open-domain':
            caps.append(bgpmsg.cap(73, b'\x02r1' + bytes([len(pay)]) + pay))
        elif kind == 'open-swver':
            caps.append(bgpmsg.cap(75, bytes([len(pay)]) + pay))
        else:
            caps.append(bgpmsg.cap(200, pay))
        return 'msg', 1, bgpmsg.open_msg(65001, 90, '5.6.7.8', caps, one_param_per_cap=True)[19:]
    if kind == 'notif-shutdown':
        return 'msg', 3, bytes([6, 2, len(pay)]) + pay
    if kind == 'notif-reset':
        return 'msg', 3, bytes([6, 4, len(pay)]) + pay
    if kind == 'notif-data':
        return 'msg', 3, bytes([2, 2]) + pay
    if kind.startswith('upd-'):
        extra = {
            'upd-unknown-attr': bgpmsg.attr(0xC0, 250, pay),
            'upd-ls-node-name': bgpmsg.attr(0x80, 29, tlv(1026, pay)),
            'upd-ls-opaque': bgpmsg.attr(0x80, 29, tlv(1025, pay)),
            'upd-sid-twice': bgpmsg.attr(0xC0, 40, (b'\x01\x00\x07\x00\x00\x00' + struct.pack('!L', 5)) + (b'\x01\x00\x07\x00\x00\x00' + struct.pack('!L', 6))),
            'upd-sid-srgb-twice': bgpmsg.attr(0xC0, 40, b'\x01\x00\x07\x00\x00\x00' + struct.pack('!L', 5) + b'\x03\x00\x08\x00\x00' + b'\x00\x3e\x80\x00\x00\x64' + b'\x03\x00\x08\x00\x00' + b'\x00\x7d\x00\x00\x00\x64'),
            # AGGREGATOR and AS4_AGGREGATOR in one UPDATE (RFC 6793: the second one is only meaningful from a 2-byte speaker)
            'upd-aggr-both': bgpmsg.attr(0xC0, 7, struct.pack('!L', 65010) + bytes([10, 0, 0, 9])) + bgpmsg.attr(0xC0, 18, struct.pack('!L', 4200000000) + bytes([10, 0, 0, 9])),
            # RFC 9252: SRv6 L3 service TLV > SID information sub-TLV > two sub-sub-TLVs of a type nobody knows
            'upd-sid-srv6-subsub-twice': bgpmsg.attr(0xC0, 40, _srv6_l3(_srv6_sid_info(_sst(200, b'\x01\x02') + _sst(200, b'\x03\x04')))),
            # ... and two SID information sub-TLVs
            'upd-sid-srv6-sub-twice': bgpmsg.attr(0xC0, 40, _srv6_l3(_srv6_sid_info(b'') + _srv6_sid_info(b''))),
        }[kind]
        return 'msg', 2, bgpmsg.update(attrs=bgpmsg.base_attrs() + extra, nlri=bgpmsg.prefix('10.0.0.0/24'))[19:]
    if kind in ('oper-adm', 'oper-asm'):
        body = struct.pack('!HB', 1, 1) + pay
        return 'msg', 6, struct.pack('!HH', 1 if kind == 'oper-adm' else 2, len(body)) + body
    if kind == 'oper-unknown':
        return 'msg', 6, struct.pack('!HH', 0x7777, len(pay)) + pay
    return 'call', kind, b''


def shape(v) -> str:
    if isinstance(v, dict):
        return '{' + ','.join(f'{k}:{shape(x)}' for k, x in sorted(v.items())) + '}'
    if isinstance(v, list):
        return '[' + '|'.join(sorted({shape(x) for x in v})) + ']'
    return type(v).__name__ if not isinstance(v, (int, float)) or isinstance(v, bool) else 'num'


def abstract(records: list[bytes]) -> dict:
    out = {'records': len(records), 'fmt': 'text', 'lines': 0, 'ascii': True, 'parses': True, 'nodup': True, 'envelope': True, 'control': False, '_shape': ''}
    for rec in records:
        body = rec[:-1] if rec.endswith(b'\n') else rec
        out['lines'] = max(out['lines'], len([ln for ln in body.replace(b'\r', b'\n').split(b'\n') if ln.strip()]))
        out['ascii'] = out['ascii'] and all(b < 0x80 for b in rec)
        if body.lstrip().startswith(b'{'):
            out['fmt'] = 'json'
            dup = []

            def hook(pairs):
                keys = [k for k, _ in pairs]
                if len(keys) != len(set(keys)):
                    dup.append(sorted(k for k in set(keys) if keys.count(k) > 1))
                return dict(pairs)

            try:
                doc = json.loads(body.decode('ascii', 'replace'), object_pairs_hook=hook)
                out['nodup'] = out['nodup'] and not dup
                out['envelope'] = out['envelope'] and isinstance(doc, dict) and ENVELOPE <= set(doc) and ('neighbor' in doc or doc.get('type') in ('shutdown', 'signal'))
                # the counter/time/pid values differ between runs: the structure is keys and types
                out['_shape'] += shape(doc)
                out['_dup'] = dup
            except ValueError as exc:
                out['parses'] = False
                out['_err'] = str(exc)[:80]
        else:
            out['control'] = out['control'] or any((b < 0x20 and b != 0x0A) or b == 0x7F for b in body)   # line feeds are counted by `lines`
            out['_shape'] += 'text'
    return out


def execute(w: World, u: dict) -> dict:
    proc = 'svc'
    what = build(u['kind'], PAY[u['pay']])
    w.drain()
    w.fresh_negotiated()
    rendered, written, exc = True, True, ''
    try:
        if what[0] == 'msg':
            try:
                msg = Message.unpack(what[1], memoryview(what[2]), w.neg)
            except Notify as n:
                # the message does not decode: refused, no event to look at (C03/C08 decide whether refusing is right)
                return {'u': u, 'decoded': False, '_exc': f'Notify({n.code},{n.subcode})', '_recs': [], '_shape': ''}
            if what[1] == 1:
                w.neg.received(msg)
            header, body = (bgpmsg.msg(what[1], what[2])[:19], what[2]) if u['mode'] == 'consolidate' else (b'', b'')
            w.p.message(msg.ID, w.peer, 'receive', msg, header, body, w.neg)
        elif what[1] == 'state-down':
            w.p.down(w.neighbor, 'notification received (6,2)')
        else:
            w.p.negotiated(w.neighbor, w.neg)
    except UnicodeEncodeError as e:
        written, exc = False, 'UnicodeEncodeError: ' + str(e)[:80]
    except Exception as e:  # noqa: BLE001 - the observation is whether anything escapes
        import traceback

        tb = traceback.extract_tb(e.__traceback__)
        where = tb[-1].filename.split('/')[-1] + ':' + tb[-1].name
        if any(f.name == 'write' and f.filename.endswith('processes.py') for f in tb):
            written = False
        else:
            rendered = False
        exc = f'{type(e).__name__}: {str(e)[:80]} at {where}'
    recs = w.drain().get(proc, [])
    a = abstract(recs)
    a.update({'u': u, 'decoded': True, 'rendered': rendered, 'written': written, '_exc': exc, '_recs': [r[:400].decode('ascii', 'replace') for r in recs]})
    return a


def run(tier: str) -> int:
    ck = Check('C13', tier, 'model_checking')
    ck.cov['rule'] = (
        'cases = rows of the ExaEvent table enumerated by TLC (17 message kinds / peer-controlled slots x 15 classes of peer bytes x {json, text} x API {4, 6}); '
        'each message is decoded by the real Message.unpack and delivered through Processes.message() (down()/negotiated() for the state events) to a helper '
        'whose pipe is a real pipe; the queued bytes are abstracted (records, lines, JSON parse with duplicate-key detection, envelope, key/type structure compared '
        'with the same event carrying a harmless string, control characters in text) and TLC (Judge_ExaEvent) evaluates WellFormed; distinct = distinct rows'
    )
    ck.assumptions += ['received direction only; one helper per encoder; the queue-to-pipe path is the ExaPipe model (second part of this check)']
    res, states = tlc.dump_states('Gen_ExaEvent', '', 'c13gen', ['u', 'z'], cfg_text='SPECIFICATION GenSpec\nINVARIANT TableOK\nCHECK_DEADLOCK FALSE\n', workers=8)
    ck.tlc(res, 'Gen_ExaEvent: rows')
    if not res.ok:
        raise tlc.TLCError('Gen_ExaEvent: ' + res.out[-1500:])
    rows = sorted((s['u'] for s in states), key=lambda u: (u['version'], u['enc'], u['mode'], u['kind'], u['pay'] != 'plain', u['pay']))
    lines = []
    worlds = {(v, e): World(v, e) for v in (4, 6) for e in ('json', 'text')}
    benign: dict = {}
    refused = 0
    try:
        for u in rows:
            a = execute(worlds[(u['version'], u['enc'])], u)
            ck.count(u)
            if not a['decoded']:
                refused += 1
                continue
            key = (u['version'], u['enc'], u['mode'], u['kind'])
            if u['pay'] == 'plain':
                benign[key] = (a['_shape'], a['lines'])
            a['shapeSame'] = a['_shape'] == benign.get(key, (a['_shape'], 0))[0]
            a['benignLines'] = benign.get(key, ('', a['lines']))[1]
            a['id'] = len(lines)
            lines.append(a)
            if u['pay'] == 'forge' and len(ck.cov['samples']) < 3:
                ck.sample({'row': u, 'record': a['_recs'][:1]})
    finally:
        for w in worlds.values():
            w.close()
    ck.notes.append(f'{refused} rows: the message was refused by the decoder (no event)')
    bad, jres = updcheck.judge([{k: v for k, v in ln.items() if not k.startswith('_')} for ln in lines], 'Judge_ExaEvent', 'c13' + tier[0])
    ck.tlc(jres, f'Judge_ExaEvent: {len(lines)} rows')
    ck.cov['traces_validated_against_impl'] = len(lines)
    ck.cov['exhaustive'] = True
    for b in bad:
        ln = lines[b['id']]
        for clause in b['clauses']:
            u = ln['u']
            ck.violation({'clause': clause, 'kind': u['kind'], 'enc': u['enc'], 'version': u['version'], 'pay': u['pay'], 'mode': u['mode']},
                         f'{clause}: {u} {ln["_exc"]} dup={ln.get("_dup")} err={ln.get("_err")} records={ln["_recs"][:2]}', {'u': u, 'clause': clause})
    run_pipe(ck, tier)
    return ck.finish()


def replay_file(path: str) -> int:
    c = json.load(open(path))['case']
    if 'hist' in c:
        ck = Check('C13', 'replay', 'model_checking')
        lens = [op['len'] for op in c['hist'] if op['op'] == 'write']
        pw = PipeWorld()
        try:
            obs = pw.run(c['hist'])
        finally:
            pw.close()
        last = obs[-1] if obs else {'error': 'nothing observed'}
        ok = 'error' not in last and last['out'] == expected_bytes([tuple(x) for x in c['out']], lens) and b''.join(last['queue']) == b''.join(expected_bytes([tuple(x) for x in i], lens) for i in c['queue'])
        print(c['hist'], last)
        if not ok:
            print(f'VIOLATION property=C13 replay={path}')
            return 1
        print('replay: property held on this case')
        return 0
    u = c['u']
    w = World(u['version'], u['enc'])
    try:
        base = execute(w, dict(u, pay='plain'))
        a = execute(w, u)
    finally:
        w.close()
    if not a['decoded']:
        print('replay: the message is refused by the decoder, no event')
        return 0
    a['shapeSame'] = a['_shape'] == base['_shape']
    a['benignLines'] = base.get('lines', a['lines'])
    a['id'] = 0
    bad, _ = updcheck.judge([{k: v for k, v in a.items() if not k.startswith('_')}], 'Judge_ExaEvent', 'replay')
    print(u, a['_exc'], a['_recs'][:2])
    if any(c['clause'] in b['clauses'] for b in bad):
        print(f'VIOLATION property=C13 replay={path}')
        return 1
    print('replay: property held on this case')
    return 0


# ---- second half: the queue-to-pipe path against ExaPipe -------------------------------------------------------
NONE, EAGAIN = 100, 101


def pipe_model_check(ck: Check) -> None:
    res = tlc.run('ExaPipe', os.path.join(tlc.SPEC, 'MC_ExaPipe.cfg'), 'c13pipe-mc', workers=8)
    ck.tlc(res, 'ExaPipe: Batch 2, 5 records of 1-3 bytes, every flush outcome; invariants Fifo, NoEmptyItem (VIEW without history)')
    if not res.ok:
        raise tlc.TLCError('ExaPipe does not satisfy its invariants: ' + res.out[-1500:])
    res = tlc.run('ExaPipe', os.path.join(tlc.SPEC, 'MC_ExaPipe_tail.cfg'), 'c13pipe-tail', workers=8)
    if res.violated_invariant != 'Fifo':
        raise tlc.TLCError('ExaPipe with the remainder requeued at the tail should violate Fifo (vacuity guard): ' + res.out[-800:])
    ck.notes.append('vacuity guard: ExaPipe with HeadRequeue = FALSE violates Fifo, as it must')


def pipe_scripts(ck: Check, tier: str) -> list:
    cfg = 'SPECIFICATION Spec\nCONSTANTS\n  Batch = 10\n  MaxRecs = {n}\n  Lens = {lens}\n  MaxOps = {ops}\n  HeadRequeue = TRUE\nCONSTRAINT Bound\nINVARIANT Fifo\nCHECK_DEADLOCK FALSE\n'
    scripts = []
    n, ops = (3, 6) if tier == 'quick' else (4, 7)
    res, states = tlc.dump_states('ExaPipe', '', 'c13pipe-gen', ['hist', 'queue', 'out'], cfg_text=cfg.format(n=n, lens='{1, 3}', ops=ops), workers=16)
    ck.tlc(res, f'ExaPipe histories: Batch 10, {n} records of 1 or 3 bytes, up to {ops} operations, all enumerated')
    if not res.ok:
        raise tlc.TLCError('ExaPipe gen: ' + res.out[-1500:])
    scripts += [s for s in states if len(s['hist']) == ops or True]
    # the batch limit only binds with more than ten queued records: random walks of the same specification with 13 records
    path = os.path.join(tlc.WORK, 'c13pipe-sim.cfg')
    open(path, 'w').write(cfg.format(n=13, lens='{2, 3}', ops=24))
    walks = tlc.simulate('ExaPipe', path, 'c13pipe-sim', num=150 if tier == 'quick' else 1500, depth=25, seed=seed() + 1)
    for b in walks:
        if b:
            st = b[-1][2]
            scripts.append({'hist': st['hist'], 'queue': st['queue'], 'out': st['out']})
    ck.notes.append(f'{len(walks)} random walks of ExaPipe with 13 records (the batch of ten binds) replayed as well')
    return scripts


class PipeWorld:
    """Real Processes in async mode with one helper; os.write as seen by the processes module is scripted."""

    def __init__(self) -> None:
        self.w = World(6, 'json')
        self.p = self.w.p
        self.stream = b''
        self.script: list = []
        self.fd = self.p._process['svc'].stdin.fileno()

    def os_write(self, fd, data):
        if fd != self.fd:
            return self._real(fd, data)
        if not self.script:
            raise AssertionError('flush_write_queue() wrote more items than the model allows in this call')
        r = self.script.pop(0)
        if r == EAGAIN:
            import errno

            raise OSError(errno.EAGAIN, 'scripted EAGAIN')
        k = len(data) if r == 'full' else r
        self.stream += bytes(data[:k])
        return k

    def run(self, hist: list) -> list:
        import asyncio

        self._real = processes_mod.os.write
        self.stream = b''
        self.p._write_queue.pop('svc', None)
        obs = []
        loop = asyncio.new_event_loop()
        try:
            processes_mod.os.write = self.os_write
            letters = 'abcdefghijklmnopqrstuvwxyz'
            nrec = 0
            for op in hist:
                if op['op'] == 'write':
                    nrec += 1
                    self.p.write('svc', letters[nrec - 1] * (op['len'] - 1))   # write() appends the newline: len bytes in all
                else:
                    self.script = ['full'] * op['full'] + ([] if op['last'] == NONE else [op['last']])
                    try:
                        loop.run_until_complete(self.p.flush_write_queue())
                        leftover = list(self.script)
                    except AssertionError as exc:
                        obs.append({'error': str(exc)})
                        break
                    if leftover:
                        obs.append({'error': f'flush_write_queue() stopped early: {len(leftover)} scripted write(s) not attempted'})
                        break
                obs.append({'out': self.stream, 'queue': [bytes(x) for x in self.p._write_queue.get('svc', [])]})
        finally:
            processes_mod.os.write = self._real
            loop.close()
        return obs

    def run_long(self, hist: list) -> dict:
        """like run(), for histories of thousands of records: returns the final stream, queue and what was written"""
        import asyncio

        self._real = processes_mod.os.write
        self.stream = b''
        self.p._write_queue.pop('svc', None)
        written = b''
        loop = asyncio.new_event_loop()
        try:
            processes_mod.os.write = self.os_write
            nrec = 0
            for op in hist:
                if op['op'] == 'write':
                    nrec += 1
                    text = ('%07d' % nrec)[: op['len'] - 1].ljust(op['len'] - 1, 'x')
                    self.p.write('svc', text)
                    written += text.encode() + b'\n'
                else:
                    self.script = ['full'] * op['full'] + ([] if op['last'] == NONE else [op['last']])
                    try:
                        loop.run_until_complete(self.p.flush_write_queue())
                    except AssertionError as exc:
                        return {'error': str(exc)}
                    self.script = []
        finally:
            processes_mod.os.write = self._real
            loop.close()
        return {'out': self.stream, 'queue': [bytes(x) for x in self.p._write_queue.get('svc', [])], 'written': written}

    def close(self) -> None:
        self.w.close()


def expected_bytes(seq, lens) -> bytes:
    letters = 'abcdefghijklmnopqrstuvwxyz'
    return bytes((ord(letters[r - 1]) if k < lens[r - 1] else 0x0A) for r, k in seq)


def run_pipe(ck: Check, tier: str) -> None:
    pipe_model_check(ck)
    states = pipe_scripts(ck, tier)
    n = 0
    pw = PipeWorld()
    for st in states:
        hist = st['hist']
        if not hist:
            continue
        lens = [op['len'] for op in hist if op['op'] == 'write']
        obs = pw.run(hist)
        n += 1
        ck.count({'pipe': hist})
        last = obs[-1] if obs else {'error': 'nothing observed'}
        want_out = expected_bytes(st['out'], lens)
        want_queue = [expected_bytes(item, lens) for item in st['queue']]
        if 'error' in last:
            ck.violation({'clause': 'C13-pipe-flush-differs-from-the-model', 'kind': 'pipe'}, f'C13-pipe-flush-differs-from-the-model: {last["error"]} after {hist}', {'hist': hist, 'out': st['out'], 'queue': st['queue']})
        elif last['out'] != want_out or b''.join(last['queue']) != b''.join(want_queue):
            clause = 'C13-pipe-stream-is-not-the-records-in-order'
            ck.violation({'clause': clause, 'kind': 'pipe'}, f'{clause}: helper read {last["out"]!r} queue {last["queue"]!r}; model {want_out!r} {want_queue!r}; history {hist}',
                         {'hist': hist, 'out': st['out'], 'queue': st['queue']})
    # Long stalls: the bounded model cannot hold thousands of queued records, but its invariant does not depend on the
    # bound -- ExaPipe!Fifo: what the helper has read followed by what is still queued is the records in the order
    # written.  A helper which stops reading after a partial write while thousands of events are queued, then drains.
    for queued in ((4200, 9000) if tier == 'quick' else (300, 4097, 4200, 9000, 20000)):
        hist = [{'op': 'write', 'len': 40}, {'op': 'write', 'len': 40}, {'op': 'flush', 'full': 1, 'last': 17}]
        hist += [{'op': 'write', 'len': 6}] * queued
        hist += [{'op': 'flush', 'full': 0, 'last': EAGAIN}]
        hist += [{'op': 'flush', 'full': 10, 'last': NONE}] * (queued // 10 + 2)
        obs = pw.run_long(hist)
        n += 1
        ck.count({'pipe-long-stall': queued})
        if 'error' in obs:
            ck.violation({'clause': 'C13-pipe-flush-differs-from-the-model', 'kind': 'pipe-long'}, f'C13-pipe-flush-differs-from-the-model: {obs["error"]} (stall with {queued} records queued)', {'hist': 'long-stall', 'queued': queued})
        elif obs['out'] + b''.join(obs['queue']) != obs['written']:
            got = obs['out'] + b''.join(obs['queue'])
            at = next((i for i in range(min(len(got), len(obs['written']))) if got[i] != obs['written'][i]), min(len(got), len(obs['written'])))
            ck.violation({'clause': 'C13-pipe-stream-is-not-the-records-in-order', 'kind': 'pipe-long'},
                         f'C13-pipe-stream-is-not-the-records-in-order: after a partial write and {queued} records queued during the stall, stream + queue differs from the records written at byte {at}: {got[max(0, at - 20):at + 30]!r} vs {obs["written"][max(0, at - 20):at + 30]!r}',
                         {'hist': 'long-stall', 'queued': queued})
    pw.close()
    ck.cov['pipe_histories_replayed'] = n
