"""Runs the real exabgp Peer coroutine under a virtual clock against a scripted remote speaker and records one event
per observable step.  Observation points are wrapped from outside (no change to /repo):

  fsm      FSM.change(from, to)
  tx       Connection.writer_async(bytes)      (one BGP message per call; classified by the 19-byte header only)
  close    Connection.close() on an open transport
  api      reactor.processes.up/down/connected/negotiated/...
  rx       the scripted speaker hands bytes to the kernel (stimulus)
  conn     outgoing connect attempt accepted / refused by the script, inbound connection offered
  rib      StartFlush / Yield / FlushDone of OutgoingRIB.updates(), operator calls

All timestamps are virtual milliseconds.  Python only executes and records; the log is judged by TLC."""

from __future__ import annotations

import asyncio
import gc
import os
import socket
import struct

os.environ.setdefault('exabgp_log_enable', 'false')
os.environ.setdefault('exabgp_tcp_attempts', '0')

from exabgp.bgp.fsm import FSM  # noqa: E402
from exabgp.configuration.configuration import Configuration  # noqa: E402
from exabgp.protocol.family import AFI  # noqa: E402
from exabgp.reactor.network import incoming as incoming_mod  # noqa: E402
from exabgp.reactor.network.connection import Connection  # noqa: E402
from exabgp.reactor.network.incoming import Incoming  # noqa: E402
from exabgp.reactor.network.outgoing import Outgoing  # noqa: E402
from exabgp.reactor.peer.peer import Peer  # noqa: E402
from exabgp.rib import RIB  # noqa: E402

from harness import bgpmsg, vtime  # noqa: E402

CONF = """
process svc {{
  run /bin/true;
  encoder json;
}}
neighbor 127.0.0.2 {{
  router-id 1.2.3.4;
  local-address 127.0.0.1;
  local-as {local_as};
  peer-as {peer_as};
  hold-time {hold};
  {passive}
  {extra}
  family {{ {families} }}
  capability {{ add-path send/receive; route-refresh {rr}; graceful-restart disable; }}
  api {{
    processes [ svc ];
    neighbor-changes;
    fsm;
    negotiated;
    {receive}
  }}
  {static}
}}
"""


class ApiRecorder:
    """Stands for reactor.processes: records every call the peer makes towards API processes."""

    terminate_on_error = False

    def __init__(self, world) -> None:
        self.world = world
        self.fail_up = False

    def broken(self, neighbor) -> bool:
        return False

    def __getattr__(self, name):
        def call(*args, **kw):
            if name in ('up', 'down', 'connected', 'negotiated'):
                self.world.log('api', what=name)
            elif name == 'fsm':
                pass
            else:
                self.world.api_calls.append((name, args))
            return None

        return call


class ReactorStub:
    def __init__(self, world) -> None:
        self.processes = ApiRecorder(world)
        self.world = world

    def shutdown(self) -> None:
        self.world.log('reactor', what='shutdown')


class PeerWorld:
    _runs = 0

    def __init__(self, hold=9, local_as=65000, peer_as=65001, passive=False, extra='', static='', openwait=60, tail='', route_refresh=True, receive=True, slow_reader=None, families='ipv4 unicast; ipv6 unicast;') -> None:
        RIB._cache.clear()
        Connection.identifier.clear()
        self._fmt = dict(hold=hold, local_as=local_as, peer_as=peer_as, passive='passive true;' if passive else '', extra=extra, rr='enable' if route_refresh else 'disable', families=families,
                         receive='receive { parsed; update; notification; open; keepalive; refresh; }' if receive else '')
        text = self.config_text(static, tail)
        self.conf = Configuration([text], text=True)
        if not self.conf.reload():
            raise RuntimeError('harness configuration refused: %s' % getattr(self.conf, 'error', ''))
        self.neighbor = [n for n in self.conf.neighbors.values() if str(n.session.peer_address) == '127.0.0.2'][0]
        self.clock = vtime.Clock()
        self.events: list[dict] = []
        self.api_calls: list = []
        self.reactor = ReactorStub(self)
        self.passive = passive
        self.slow_reader = slow_reader      # (bytes per read, ms between reads) or None
        self.peer_as = peer_as
        self.hold = hold
        self.remote: socket.socket | None = None  # remote end of the current transport
        self.rx_msgs: list[tuple[int, int, bytes]] = []  # (t, type, raw) received by the remote speaker
        self.connect_plan: list[str] = []  # 'ok' | 'fail' for successive outgoing attempts (default ok)
        self.conn_seq = 0
        self._readers: dict = {}
        self.cur_conn = 0
        self._conn_ids: dict[int, int] = {}
        self.tasks: list = []

    def config_text(self, static: str, tail: str = '') -> str:
        """the configuration of the neighbour under test with the given static section, followed by `tail` (other neighbours)"""
        return CONF.format(static=static, **self._fmt) + tail

    # -- event log ------------------------------------------------------------------------
    def log(self, e: str, **kw) -> None:
        ev = {'t': self.clock.ms(), 'e': e}
        ev.update(kw)
        self.events.append(ev)

    def conn_id(self, conn) -> int:
        return self._conn_ids.setdefault(id(conn), len(self._conn_ids) + 1)

    # -- wrappers (installed for the duration of a run) ---------------------------------------
    def _install(self):
        world = self
        from exabgp.bgp.message import Notification, Notify
        from exabgp.reactor.protocol import Protocol

        saved = {
            'read': Protocol.read_message,
            'change': FSM.change,
            'writer': Connection.writer_async,
            'close': Connection.close,
            'establish': Outgoing.establish_async,
            'nagle': incoming_mod.nagle,
        }

        def change(fsm, state):
            frm = fsm.state
            r = saved['change'](fsm, state)
            if getattr(world, 'peer', None) is not None and fsm is not world.peer.fsm:
                return r        # the state machine of a Peer object which was removed and replaced: not this neighbour's session any more
            world.log('fsm', frm=frm.name, to=state.name)
            return r

        async def writer(conn, data):
            raw = bytes(data)
            typ = raw[18] if len(raw) >= 19 else 0
            ev = {'c': world.conn_id(conn), 'type': typ, 'len': len(raw), 'open': conn.io is not None}
            if typ == 3 and len(raw) >= 21:
                ev['code'], ev['sub'] = raw[19], raw[20]
            if typ == 2:
                ev['hex'] = raw.hex()
            if typ == 5 and len(raw) >= 23:
                ev['sub'] = raw[21]
            world.log('tx', **ev)
            return await saved['writer'](conn, data)

        def close(conn):
            if conn.io is not None:
                world.log('close', c=world.conn_id(conn))
            return saved['close'](conn)

        async def establish(conn, timeout=30.0, max_attempts=50):
            plan = world.connect_plan.pop(0) if world.connect_plan else 'ok'
            if plan != 'ok':
                world.log('conn', what='refused')
                await asyncio.sleep(0.1)
                return False
            a, b = socket.socketpair()
            a.setblocking(False)
            b.setblocking(False)
            if world.slow_reader:
                # a remote end which reads slowly: small kernel buffers, so that our writes really wait for it
                a.setsockopt(socket.SOL_SOCKET, socket.SO_SNDBUF, 4096)
                b.setsockopt(socket.SOL_SOCKET, socket.SO_RCVBUF, 4096)
            conn.io = a
            conn.local = '127.0.0.1'
            conn.success()
            world._new_transport(b, world.conn_id(conn), 'outgoing')
            return True

        async def read_message(proto):
            # linearisation point "the peer consumed the next message": log on return and on the error paths
            conn = proto.connection
            try:
                m = await saved['read'](proto)
            except Notify as exc:
                world.log('got', c=world.conn_id(conn), kind='error', code=exc.code, sub=exc.subcode)
                raise
            except Notification as exc:
                world.log('got', c=world.conn_id(conn), kind='msg', type=3, code=exc.code, sub=exc.subcode)
                raise
            except asyncio.CancelledError:
                raise
            except Exception as exc:
                world.log('got', c=world.conn_id(conn), kind='lost', err=type(exc).__name__)
                raise
            if not m.SCHEDULING:
                from exabgp.reactor import protocol as _protocol

                kind = 'undecoded' if m is getattr(_protocol, '_UPDATE', None) else 'msg'   # UPDATE nobody asked to decode
                world.log('got', c=world.conn_id(conn), kind=kind, type=int(m.TYPE[0]) if isinstance(m.TYPE, bytes) else int(m.TYPE))
            return m

        Protocol.read_message = read_message
        FSM.change = change
        Connection.writer_async = writer
        Connection.close = close
        Outgoing.establish_async = establish
        incoming_mod.nagle = lambda io, peer: None
        return saved

    def _uninstall(self, saved) -> None:
        from exabgp.reactor.protocol import Protocol

        Protocol.read_message = saved['read']
        FSM.change = saved['change']
        Connection.writer_async = saved['writer']
        Connection.close = saved['close']
        Outgoing.establish_async = saved['establish']
        incoming_mod.nagle = saved['nagle']

    # -- remote speaker -----------------------------------------------------------------------
    def _new_transport(self, sock: socket.socket, cid: int, kind: str) -> None:
        self.remote = sock
        self.cur_conn = cid
        self.conn_rx_start = len(self.rx_msgs)
        self.log('conn', what=kind, c=cid)
        t = asyncio.get_event_loop().create_task(self._remote_reader(sock, cid))
        self.tasks.append(t)
        self._readers[id(sock)] = t

    async def _remote_reader(self, sock: socket.socket, cid: int) -> None:
        loop = asyncio.get_event_loop()
        buf = b''
        try:
            while True:
                if self.slow_reader:
                    await asyncio.sleep(self.slow_reader[1] / 1000.0)
                data = await loop.sock_recv(sock, self.slow_reader[0] if self.slow_reader else 65536)
                if not data:
                    self.log('remote', what='eof', c=cid)
                    return
                buf += data
                while len(buf) >= 19:
                    ln = struct.unpack('!H', buf[16:18])[0]
                    if ln < 19 or len(buf) < ln:
                        break
                    raw, buf = buf[:ln], buf[ln:]
                    self.rx_msgs.append((self.clock.ms(), raw[18], raw))
        except (OSError, asyncio.CancelledError):
            return

    async def remote_send(self, data: bytes, cls: str, split=None, gap_ms: int = 0, hold_ms: int = 0) -> None:
        """Hand `data` to the kernel, optionally in pieces separated by virtual delays."""
        loop = asyncio.get_event_loop()
        sock = self.remote
        self.log('rx', cls=cls, c=self.cur_conn, len=len(data), hold=hold_ms)
        pieces = []
        if split:
            i = 0
            for cut in split:
                pieces.append(data[i:cut])
                i = cut
            pieces.append(data[i:])
        else:
            pieces = [data]
        for n, p in enumerate(pieces):
            if n and gap_ms:
                await asyncio.sleep(gap_ms / 1000.0)
            try:
                await loop.sock_sendall(sock, p)
            except OSError:
                return

    def remote_close(self) -> None:
        if self.remote is not None:
            self.log('rx', cls='EOF', c=self.cur_conn, len=0)
            # unregister the pending read before the fd number can be reused by the next socketpair
            t = self._readers.pop(id(self.remote), None)
            if t is not None:
                t.cancel()
            try:
                self.remote.close()
            except OSError:
                pass
            self.remote = None

    async def wait_rx(self, typ: int, since: int, timeout_ms: int = 5000) -> bool:
        """Wait (virtual time) until the remote speaker has received a message of type `typ` after index `since`."""
        t_end = self.clock.now + timeout_ms / 1000.0
        while self.clock.now < t_end:
            if any(m[1] == typ for m in self.rx_msgs[since:]):
                return True
            await asyncio.sleep(0.01)
        return False

    def offer_incoming(self):
        """What the listener does for an inbound TCP connection from this neighbour."""
        a, b = socket.socketpair()
        a.setblocking(False)
        b.setblocking(False)
        inc = Incoming(AFI.ipv4, '127.0.0.2', '127.0.0.1', a)
        cid = self.conn_id(inc)
        old_remote, old_cid = self.remote, self.cur_conn
        self.log('conn', what='incoming-offered', c=cid)
        refusal = self.peer.handle_connection(inc)
        if self.peer._async_task is None:             # the next iteration of Reactor._run_async_peers
            self.peer.start_async_task()
            self.tasks.append(self.peer._async_task)
        if refusal is not None:
            for _ in refusal:
                pass
            data = b''
            try:
                data = b.recv(4096)
            except OSError:
                pass
            code = (data[19], data[20]) if len(data) >= 21 and data[18] == 3 else None
            self.log('conn', what='incoming-refused', c=cid, code=code[0] if code else 0, sub=code[1] if code else 0)
            b.close()
            return False
        self._new_transport(b, cid, 'incoming-accepted')
        if old_remote is not None and old_remote is not self.remote:
            t = self._readers.pop(id(old_remote), None)
            if t is not None:
                t.cancel()
            try:
                old_remote.close()
            except OSError:
                pass
        return True

    def forget_remote(self) -> None:
        """our side closed the transport: the remote speaker lets go of its end (no EOF is logged: nothing reads it any more)"""
        if self.remote is not None:
            t = self._readers.pop(id(self.remote), None)
            if t is not None:
                t.cancel()
            try:
                self.remote.close()
            except OSError:
                pass
            self.remote = None

    def readd_peer(self) -> None:
        """the neighbour is configured again: the reactor creates a new Peer for it and starts its task"""
        self.peer = Peer(self.neighbor, self.reactor)
        self.peer.start_async_task()
        self.tasks.append(self.peer._async_task)

    # -- running --------------------------------------------------------------------------------
    def run(self, director, horizon_ms: int = 200_000) -> list[dict]:
        """director: async callable(world) driving stimuli; returns the event log."""
        saved = self._install()
        loop = vtime.VLoop(self.clock)
        asyncio.set_event_loop(loop)
        try:
            with vtime.patched_time(self.clock):
                self.peer = Peer(self.neighbor, self.reactor)

                async def main():
                    self.peer.start_async_task()          # as Reactor._run_async_peers does
                    self.tasks.append(self.peer._async_task)
                    try:
                        await asyncio.wait_for(director(self), timeout=horizon_ms / 1000.0)
                    except asyncio.TimeoutError:
                        self.log('harness', what='horizon')
                    self.log('end')
                    for t in self.tasks:
                        t.cancel()
                    await asyncio.gather(*self.tasks, return_exceptions=True)

                try:
                    loop.run_until_complete(main())
                except vtime.Stuck:
                    self.log('harness', what='stuck')
        finally:
            self._uninstall(saved)
            try:
                if self.remote is not None:
                    self.remote.close()
            except OSError:
                pass
            if self.peer.proto and self.peer.proto.connection:
                saved['close'](self.peer.proto.connection)
            loop.close()
            asyncio.set_event_loop(None)
            PeerWorld._runs += 1
            gc.collect() if PeerWorld._runs % 8 == 0 else gc.collect(0)   # full collections are most of the cost of a short scenario
        return self.events

    # -- canned remote behaviour ------------------------------------------------------------------
    def open_bytes(self, hold=None, asn=None, rid='5.6.7.8', **kw) -> bytes:
        asn = self.peer_as if asn is None else asn
        if 'nlri-mpls' in self._fmt.get('families', ''):          # the remote speaker offers what the session under test is configured for
            kw.setdefault('fams', ((1, 1), (1, 4)))
            kw.setdefault('addpath', ((1, 1, 3), (1, 4, 3)))
        return bgpmsg.open_msg(asn, self.hold if hold is None else hold, rid, bgpmsg.default_caps(asn, **kw))

    async def establish(self, hold=None, **caps) -> bool:
        """Remote side of a normal session establishment; returns True once UPDATE/EOR/KEEPALIVE flows."""
        t_end = self.clock.now + 3.0
        while self.remote is None and self.clock.now < t_end:  # wait for the (re)connection
            await asyncio.sleep(0.01)
        n = getattr(self, 'conn_rx_start', 0)
        if not await self.wait_rx(1, n, 3000):
            return False
        await self.remote_send(self.open_bytes(hold=hold, **caps), 'OPEN', hold_ms=(self.hold if hold is None else hold) * 1000)
        if not await self.wait_rx(4, n, 3000):
            return False
        await self.remote_send(bgpmsg.keepalive(), 'KA')
        return True
