#!/venv/bin/python
"""Re-confirm every seeded change on the current /repo HEAD and record which check catches it.
   usage: seedall.py confirm|detect|meta      (confirm: seedcheck.sh per seed, three at a time; detect: seedrun.sh per (seed, check),
   one lane per check so that the same check never runs twice at once; meta: write seeded/<id>/meta.json from the two logs)"""
import concurrent.futures as cf, glob, json, os, re, subprocess, sys

V = os.path.dirname(os.path.abspath(__file__))
ALL = sorted(os.path.basename(d.rstrip('/')) for d in glob.glob(V + '/seeded/*/') if os.path.exists(d + 'patch.diff'))
SEEDS = [s for s in ALL if s in sys.argv[2:]] if len(sys.argv) > 2 and sys.argv[1] != 'meta' else ALL   # optional: only these seeds
ALSO = {'C01-A': ['C09'], 'C18-A': ['C16'], 'r2-C15-A': ['C16'], 'r2-C01-B': ['C09'], 'r2-C18-B': ['C16'], 'r3-C18-A': ['C16']}
LOG = V + '/.work/seedall'
os.makedirs(LOG, exist_ok=True)


def prop(seed):
    return re.search(r'C\d\d', seed).group(0)


def confirm(seed):
    out = subprocess.run([V + '/seedcheck.sh', seed], capture_output=True, text=True).stdout
    line = [l for l in out.splitlines() if l.startswith('RESULT')]
    open(f'{LOG}/confirm-{seed}.txt', 'w').write(line[-1] if line else 'RESULT none ' + out[-300:])
    return seed, line[-1] if line else 'none'


def lane(check, seeds):
    res = []
    for seed in seeds:
        p = subprocess.run([V + '/seedrun.sh', f'{V}/seeded/{seed}', check], capture_output=True, text=True)
        log = f'{V}/seeded/{seed}/check-{check}.log'
        text = open(log).read() if os.path.exists(log) else ''
        m = re.search(r'violation classes: (\{.*\})', text)
        rec = {'seed': seed, 'check': check, 'rc': p.returncode, 'classes': json.loads(m.group(1)) if m else {}}
        json.dump(rec, open(f'{LOG}/detect-{seed}-{check}.json', 'w'))
        if os.path.exists(log):
            os.unlink(log)
        res.append(rec)
        print('detect', seed, check, p.returncode, sorted(rec['classes'])[:3], flush=True)
    return res


if sys.argv[1] == 'confirm':
    # three at a time
    with cf.ThreadPoolExecutor(3) as ex:
        for seed, line in ex.map(confirm, SEEDS):
            print(line, flush=True)
elif sys.argv[1] == 'detect':
    lanes = {}
    for s in SEEDS:
        for c in [prop(s)] + ALSO.get(s, []):
            lanes.setdefault(c, []).append(s)
    with cf.ThreadPoolExecutor(5) as ex:
        list(ex.map(lambda kv: lane(*kv), lanes.items()))
elif sys.argv[1] == 'meta':
    for s in SEEDS:
        d = f'{V}/seeded/{s}'
        old = json.load(open(d + '/meta.json')) if os.path.exists(d + '/meta.json') else {}
        conf = open(f'{LOG}/confirm-{s}.txt').read() if os.path.exists(f'{LOG}/confirm-{s}.txt') else ''
        m = re.search(r"apply=(\w+) demo_clean_rc=(\d+) demo_mut_rc=(\d+) failed_lines=(\d+) tests='([^']*)'", conf)
        # the suite is run in two parts (see seedcheck.sh): "1 failed, 5194 passed ... + 14 passed, 6 skipped ..." is the baseline result
        # (the one failure, test_gates_are_wired::test_a_clean_tree_exits_zero, needs `uv`, which is not installed)
        det = [json.load(open(f)) for f in sorted(glob.glob(f'{LOG}/detect-{s}-*.json'))]
        notes = open(d + '/notes.md').read() if os.path.exists(d + '/notes.md') else ''
        files = sorted(set(re.findall(r'^\+\+\+ b/(\S+)', open(d + '/patch.diff').read(), re.M)))
        meta = {
            'id': s, 'property': prop(s), 'round': 3 if s.startswith('r3-') else 2 if s.startswith('r2-') else 1, 'files_changed': files,
            'what_it_needs_to_manifest': old.get('what_it_needs_to_manifest') or next((l.strip('# ').strip() for l in notes.splitlines() if l.strip()), ''),
            'demonstration': 'demo.py: PYTHONPATH=<tree>/src exabgp_log_enable=false /venv/bin/python demo.py exits 0 on the unchanged tree and 1 on the changed one',
            'confirmed': {'on': 'current /repo HEAD in a scratch git worktree (seedcheck.sh)', 'patch_applies': bool(m and m.group(1) == 'ok'),
                          'demo_rc_clean': int(m.group(2)) if m else None, 'demo_rc_changed': int(m.group(3)) if m else None,
                          'test_suite_on_changed_tree': m.group(5) if m else conf[:200],
                          **({'test_util_py_alone_on_changed_tree': open(f'{LOG}/util-{s}.txt').read().strip(),
                              'note': 'the extra failure(s) of the parallel run are tests/unit/test_util.py::TestDNS, which depend on test order under pytest-xdist; the file passes alone on the changed tree (.work/util_alone.sh)'}
                             if os.path.exists(f'{LOG}/util-{s}.txt') else {})},
            'origin': old.get('origin', 'produced by a sub-agent given only the property text and a scratch worktree'),
            'caught_by': [{'check': r['check'], 'tier': 'quick', 'detected': r['rc'] == 1, 'clauses': sorted(r['classes'])} for r in det],
        }
        json.dump(meta, open(d + '/meta.json', 'w'), indent=1)
    print('meta written for', len(SEEDS))
