SPECIFICATION Spec
CONSTANTS
  Rise = 2
  Fall = 3
  WithdrawOnDown = FALSE
  Debounce = FALSE
  NIps = 2
  MaxRounds = 7
  UpMetric = 100
  DownMetric = 1000
  DisabledMetric = 500
  Increase = 10
INVARIANT WithdrawOnExit
PROPERTY RiseHysteresis
PROPERTY FallHysteresis
CHECK_DEADLOCK FALSE
