---------------------------- MODULE MC_ExaRib ----------------------------
(* Bounded instance of ExaRib for exhaustive checking. *)
EXTENDS ExaRib

CONSTANTS MaxLevel, MaxDown, MaxResend, MaxWdog

MCFamOf(k)   == IF k = "k3" THEN "v6u" ELSE "v4u"
MCAttrIdx(k, a) == <<MCFamOf(k), a>>   \* route text carries the next hop inside the attribute index; x differs per family
MCGrouped(f) == f = "v4u"

\* counters live outside the spec proper: they only bound the exploration
Downs   == 0
LevelOK == TLCGet("level") <= MaxLevel
=============================================================================
