---------------------------- MODULE MC_ExaRib ----------------------------
(* Bounded instance of ExaRib for exhaustive checking. *)
EXTENDS ExaRib

CONSTANTS MaxLevel, MaxDown, MaxResend, MaxWdog

MCFamOf(k)   == IF k = "k3" THEN "v6u" ELSE IF k = "k7" THEN "v4l" ELSE "v4u"     \* k7: a labeled route (the label is payload: it travels with the attributes x / y)
MCAttrIdx(k, a) == <<MCFamOf(k), IF k = "k7" /\ a \in {"x", "y"} THEN "xy" ELSE a>>   \* the attribute index of the route text: x and y of the labeled key differ in the label only
MCGrouped(f) == f = "v4u"

\* counters live outside the spec proper: they only bound the exploration
Downs   == 0
LevelOK == TLCGet("level") <= MaxLevel
=============================================================================
