---------------------------- MODULE Gen_ExaReload ----------------------------
(* C17 case table: (old configuration, new configuration or fault, API route, session up/down, when the reload happens).
   The verdicts are Obs_ExaSystem's: ReloadDelta = after a successful reload and a drain the peer table equals
   new configuration + API routes (S3 with want updated by the "reload" event); ReloadAtomic = a failed reload leaves
   neighbours, Adj-RIB-Out and queue as they were (the C17-failed-reload clauses). *)
EXTENDS Naturals, TLC
CONSTANT Width
Vals == {"none", "x", "y"}
Faults == {"none", "syntax-in-other-neighbour", "syntax-in-this-neighbour", "file-vanished", "parser-exception"}
VARIABLES u, bytes
AllRows == [old1 : Vals, old2 : Vals, new1 : Vals, new2 : Vals, api : {"none", "x"}, up : BOOLEAN, fault : Faults, changed : BOOLEAN, noarib : BOOLEAN,
         second : {"none", "later", "atonce", "atonce-half"}, also : {"none", "families", "noarib"}]
\* `also`: the configuration which is going to be REFUSED also changes, in the section of the neighbour under test, what its
\* RIB is built from -- the families (ipv6 unicast, the family of the API route, dropped) or adj-rib-out (switched off): a
\* refused reload changes nothing, the structures of the running neighbour included.  Only where the neighbour's section
\* is parsed to its end before the reload fails.
\* ("atonce-half" only where the session parameters stay: with `changed` the restart path loses the first difference -- the recorded finding)
Rows == {r \in AllRows : /\ (r.second = "atonce-half" => (~r.changed /\ r.fault = "none"))
                        /\ (r.also # "none" => (r.fault \in {"syntax-in-other-neighbour", "parser-exception"} /\ ~r.noarib /\ ~r.changed /\ r.second \notin {"atonce", "atonce-half"}))}
\* `second`: a second reload follows -- of the good new configuration when the first one failed (a failed reload must not
\* break the next one), back to the old configuration when it succeeded -- once the first has been applied ("later") or
\* at once, before the peer has looked at the first ("atonce"); "atonce-half": at once, and only half way back -- the first
\* route returns to its old value, the second stays as the first reload left it (what the first reload removed is not
\* brought back by the second: the difference of the first must still reach the peer)
\* `noarib`: the neighbour is configured with adj-rib-out false (and route-refresh disabled, which it requires)
\* `changed`: the reload also changes a session parameter (hold-time), so the peer is re-established instead of reconfigured
GenInit == u \in Rows /\ bytes = <<>>
GenSpec == GenInit /\ [][UNCHANGED <<u, bytes>>]_<<u, bytes>>
TableOK == u.fault \in Faults
=============================================================================
