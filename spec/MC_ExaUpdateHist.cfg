SPECIFICATION Spec
CONSTANTS
  Sessions = {"asn4", "asn2"}
  Msgs <- MCMsgs
  SessDep <- MCSessDep
  KeyIncludesSession = TRUE
  MaxLen = 3
INVARIANT HistoryFree
CHECK_DEADLOCK FALSE
