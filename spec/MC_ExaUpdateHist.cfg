SPECIFICATION Spec
CONSTANTS
  Sessions = {"asn4", "asn2", "asn4a"}
  Msgs <- MCMsgs
  SessDep <- MCSessDep
  KeyIncludesSession = TRUE
  KeyByAddress = FALSE
  MaxLen = 3
INVARIANT HistoryFree
CHECK_DEADLOCK FALSE
