SPECIFICATION Spec
CONSTANTS
  Keys = {"k1", "k3"}
  Attrs = {"x", "y"}
  Fams = {"v4u", "v6u"}
  WdNames = {"w"}
  EmitSuperseded = FALSE
  RefreshSurvivesWithdraw = FALSE
  AttrIdx <- MCAttrIdx
  FamOf <- MCFamOf
  Grouped <- MCGrouped
  MaxLevel = 8
  MaxDown = 2
  MaxResend = 1
  MaxWdog = 1
VIEW View
CONSTRAINT LevelOK
INVARIANT TypeOK
INVARIANT Converged
INVARIANT EorAfterBatch
PROPERTY NoResurrection
PROPERTY Resync
CHECK_DEADLOCK FALSE
