----------------------------- MODULE Gen_ExaTunnel -----------------------------
(* C15, SR Policy tunnel encapsulation attributes with their reference encoding: every row within Width changes of the base. *)
EXTENDS ExaCodec
CONSTANT Width
VARIABLES u, bytes
RECURSIVE TVary(_, _)
TVary(R, k) == IF k = 0 THEN R
               ELSE TVary(R \cup UNION {UNION {{[r EXCEPT ![f] = v] : v \in TDom[f]} : f \in TFields} : r \in R}, k - 1)
GenInit == u \in TVary({TBase}, Width) /\ bytes = TunnelRef(u)
GenNext == UNCHANGED <<u, bytes>>
GenSpec == GenInit /\ [][GenNext]_<<u, bytes>>
\* the attribute length octet says what follows, the tunnel TLV fills the attribute
TableOK == Len(bytes) = 3 + bytes[3] /\ bytes[3] < 256 /\ N16(<<bytes[6], bytes[7]>>) = Len(bytes) - 7
=============================================================================
