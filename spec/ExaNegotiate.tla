---------------------------- MODULE ExaNegotiate ----------------------------
(***************************************************************************)
(* C07: the parameters in force for a session are the RFC function of the   *)
(* two OPENs.  `Row` = (our neighbour configuration, the peer's OPEN); the   *)
(* operators below are written from RFC 4271 4.2/6.2, 4760, 6793, 7911,      *)
(* 8950, 2918/7313, 8654, 9072 -- never from ExaBGP.                         *)
(*                                                                         *)
(*   OurOpen(row)      what the OPEN we send must advertise                  *)
(*   PeerOpenBytes(row) the peer's OPEN, byte for byte (ExaWire!EncOpen)     *)
(*   Refusals(row)     OPEN error subcodes the RFCs require (any one of them  *)
(*                     when several faults coincide); {} = must be accepted  *)
(*   Negotiate(row)    the parameters in force when accepted                 *)
(*                                                                         *)
(* Gen: TLC enumerates rows (a valid base row with up to `Width` fields       *)
(* changed) as initial states; Judge: TLC re-evaluates the operators on each  *)
(* row the harness executed on the real code and compares.                    *)
(***************************************************************************)
EXTENDS ExaWire

V4U == <<1, 1>>  V6U == <<2, 1>>  V4M == <<1, 2>>
OurRid == <<1, 2, 3, 4>>

\* field domains
Dom == [
    fams     |-> {{V4U}, {V4U, V6U}, {V6U}, {V4U, V6U, V4M}},
    localAs  |-> {<<0, 65000>>, <<0, 65535>>, <<1, 0>>, <<64086, 59905>>},       \* 65000, 65535, 65536, 4200000001
    ibgp     |-> BOOLEAN,                                                           \* the configured peer-as equals local-as
    asn4     |-> BOOLEAN,
    addpath  |-> 0..3,                                                              \* 0 none, 1 receive, 2 send, 3 both
    extmsg   |-> BOOLEAN,
    rr       |-> BOOLEAN,
    hold     |-> {0, 3, 90, 65535},
    big      |-> BOOLEAN,                                                           \* many capabilities: parameters > 255 bytes
    \* the peer's OPEN
    pVersion |-> {4, 3},
    pAsOk    |-> BOOLEAN,                                                           \* its AS is the one we expect
    pAsn4    |-> BOOLEAN,
    pFams    |-> {{V4U}, {V4U, V6U}, {V6U}, {V4U, V4M}, {V4U, V6U, V4M}},
    pAddpath |-> {0, 1, 2, 3, 4},                                                   \* 4 = capability present for a family we do not share
    pExtmsg  |-> BOOLEAN,
    pRR      |-> {"none", "rr", "err", "both"},
    pHold    |-> {0, 1, 2, 3, 9, 90, 65535},
    pRid     |-> {<<5, 6, 7, 8>>, <<0, 0, 0, 0>>, OurRid},
    pForm    |-> {"one", "each", "ext"},
    pDup     |-> BOOLEAN,                                                           \* MP capability repeated, order reversed
    pUnknown |-> BOOLEAN ]                                                          \* an unknown capability (code 200) present

Base == [fams |-> {V4U, V6U}, localAs |-> <<0, 65000>>, ibgp |-> FALSE, asn4 |-> TRUE, addpath |-> 3, extmsg |-> TRUE,
         rr |-> TRUE, hold |-> 90, big |-> FALSE,
         pVersion |-> 4, pAsOk |-> TRUE, pAsn4 |-> TRUE, pFams |-> {V4U, V6U}, pAddpath |-> 3, pExtmsg |-> TRUE,
         pRR |-> "both", pHold |-> 9, pRid |-> <<5, 6, 7, 8>>, pForm |-> "each", pDup |-> FALSE, pUnknown |-> FALSE]
Fields == DOMAIN Base

\* what a row means -------------------------------------------------------------------------
PeerAsExpected(r) == IF r.ibgp THEN r.localAs ELSE (IF r.localAs = <<0, 65001>> THEN <<0, 65002>> ELSE <<0, 65001>>)
PeerAsSent(r)     == IF r.pAsOk THEN PeerAsExpected(r) ELSE <<0, 65099>>
\* a peer without the 4-byte capability can only have a 2-byte AS: such rows are not well-formed peers
WellFormed(r) == (~r.pAsn4 => PeerAsSent(r)[1] = 0) /\ (~r.asn4 => r.localAs[1] = 0) /\ (r.big => ~r.ibgp)

SortFam(S) == CHOOSE s \in [1..Cardinality(S) -> S] : \A i, j \in DOMAIN s : i < j => (s[i][1] < s[j][1] \/ (s[i][1] = s[j][1] /\ s[i][2] < s[j][2]))
PeerCaps(r) ==
    LET fs == SortFam(r.pFams)
        mp == [i \in DOMAIN fs |-> CapMP(fs[i][1], fs[i][2])]
        mp2 == IF r.pDup THEN [i \in DOMAIN mp |-> mp[Len(mp) + 1 - i]] \o <<mp[1]>> ELSE mp
        ap == IF r.pAddpath = 0 THEN <<>>
              ELSE IF r.pAddpath = 4 THEN <<CapAddPath(<<<<1, 128, 3>>>>)>>
              ELSE <<CapAddPath([i \in DOMAIN fs |-> <<fs[i][1], fs[i][2], r.pAddpath>>])>>
    IN mp2
       \o (IF r.pAsn4 THEN <<CapAsn4(PeerAsSent(r))>> ELSE <<>>)
       \o (IF r.pRR \in {"rr", "both"} THEN <<CapRR>> ELSE <<>>)
       \o (IF r.pRR \in {"err", "both"} THEN <<CapERR>> ELSE <<>>)
       \o (IF r.pExtmsg THEN <<CapExtMsg>> ELSE <<>>)
       \o ap
       \o (IF r.pUnknown THEN <<Cap(200, <<1, 2, 3>>)>> ELSE <<>>)
PeerOpenBytes(r) == EncOpen(r.pVersion, PeerAsSent(r), r.pHold, r.pRid, PeerCaps(r), r.pForm)

\* RFC 4271 6.2 + RFC 6286: the OPEN errors this peer OPEN calls for
Refusals(r) ==
       (IF r.pVersion # 4 THEN {<<2, 1>>} ELSE {})
  \cup (IF ~r.pAsOk THEN {<<2, 2>>} ELSE {})
  \cup (IF r.pRid = <<0, 0, 0, 0>> THEN {<<2, 3>>} ELSE {})
  \cup (IF r.ibgp /\ r.pAsOk /\ r.pRid = OurRid THEN {<<2, 3>>} ELSE {})
  \cup (IF r.pHold \in {1, 2} THEN {<<2, 6>>} ELSE {})

Min(a, b) == IF a < b THEN a ELSE b
Negotiate(r) ==
    LET shared == r.fams \cap r.pFams
        pmode == IF r.pAddpath \in 1..3 THEN r.pAddpath ELSE 0
        both4 == r.asn4 /\ r.pAsn4
    IN [ families |-> shared,
         asn4     |-> both4,
         localAs  |-> r.localAs,                       \* the true local AS, also when the 2-byte field carried AS_TRANS
         peerAs   |-> PeerAsSent(r),
         \* RFC 7911: we send iff we advertised send and they advertised receive, for the families both announced in it
         apSend   |-> {f \in r.fams \cap r.pFams : (r.addpath \div 2) % 2 = 1 /\ pmode % 2 = 1},
         apRecv   |-> {f \in r.fams \cap r.pFams : r.addpath % 2 = 1 /\ (pmode \div 2) % 2 = 1},
         msgSize  |-> IF r.extmsg /\ r.pExtmsg THEN 65535 ELSE 4096,
         refresh  |-> IF r.rr /\ r.pRR \in {"err", "both"} THEN "enhanced"
                      ELSE IF r.rr /\ r.pRR \in {"rr", "both"} THEN "normal" ELSE "absent",
         hold     |-> Min(r.hold, r.pHold) ]

\* what our own OPEN must say (decoded by ExaWire!DecOpen from the bytes ExaBGP produced)
OurOpenViol(r, o) ==
    IF ~o.ok THEN {"C07-our-open-does-not-parse"}
    ELSE (IF o.version = 4 THEN {} ELSE {"C07-our-open-version"})
    \cup (IF <<o.as2 \div 256, o.as2 % 256>> = Asn2Bytes(r.localAs) THEN {} ELSE {"C07-our-open-my-as-field"})
    \cup (IF o.hold = r.hold THEN {} ELSE {"C07-our-open-hold-time"})
    \cup (IF o.rid = OurRid THEN {} ELSE {"C07-our-open-identifier"})
    \cup (IF r.big \/ OpenFamilies(o) = r.fams THEN {} ELSE {"C07-our-open-families-differ-from-configuration"})
    \cup (IF r.big => r.fams \subseteq OpenFamilies(o) THEN {} ELSE {"C07-our-open-families-differ-from-configuration"})
    \cup (IF HasCap(o, 65) = r.asn4 /\ (r.asn4 => OpenAsn4(o) = r.localAs) THEN {} ELSE {"C07-our-open-four-byte-as-capability"})
    \* ADD-PATH is advertised for the configured unicast families (the implementation does not offer it for multicast:
    \* not constrained either way)
    \cup (IF r.big \/ (LET want == IF r.addpath = 0 THEN {} ELSE {<<f[1], f[2], r.addpath>> : f \in r.fams} IN
                      {e \in want : e[2] = 1} \subseteq OpenAddPath(o) /\ OpenAddPath(o) \subseteq want)
          THEN {} ELSE {"C07-our-open-add-path-capability"})
    \cup (IF HasCap(o, 6) = r.extmsg THEN {} ELSE {"C07-our-open-extended-message-capability"})
    \cup (IF HasCap(o, 2) = r.rr /\ HasCap(o, 70) = r.rr THEN {} ELSE {"C07-our-open-route-refresh-capability"})
    \cup (IF r.big => o.ext THEN {} ELSE {"C07-our-open-over-255-bytes-not-in-rfc9072-form"})

=============================================================================
