----------------------------- MODULE ExaUpdateIn -----------------------------
(***************************************************************************)
(* Received UPDATEs (C02, C08, C19).  An abstract UPDATE `u` is a record of  *)
(* small named choices; Bytes(u) is its wire form under session `u.sess`      *)
(* (built with ExaWire, i.e. from the RFCs) and Outcome(u) what a receiver     *)
(* must make of it: the announce / withdraw sets with next hops, the           *)
(* attribute values, End-of-RIB -- or, when one attribute is malformed         *)
(* (u.fault), the RFC 7606 decision for it.  Outcome depends on nothing but    *)
(* the bytes and the session parameters, which is what C19 states.             *)
(***************************************************************************)
EXTENDS ExaWire

\* ---- value tables (kept tiny: each name stands for a class of values) ---------------------
A(hi, lo) == <<hi, lo>>
Paths == [
    P0 |-> <<>>,                                                                    \* empty path (iBGP)
    P1 |-> <<[t |-> 2, asns |-> <<A(0, 65001)>>]>>,
    P2 |-> <<[t |-> 2, asns |-> <<A(0, 65001), A(0, 65002), A(0, 64512)>>]>>,
    P3 |-> <<[t |-> 2, asns |-> <<A(0, 65001), A(64086, 59905)>>]>>,              \* with 4200000001
    P4 |-> <<[t |-> 2, asns |-> <<A(0, 65001)>>], [t |-> 1, asns |-> <<A(0, 65010), A(1, 0)>>]>>,   \* sequence + set with 65536
    P5 |-> <<[t |-> 2, asns |-> <<A(0, 65001), A(0, 23456), A(0, 23456)>>]>>,   \* what a 2-byte speaker sends for P5x
    \* an aggregate seen through a 2-byte speaker: AS_TRANS in the sequence and in the set (goes with Q4)
    P6 |-> <<[t |-> 2, asns |-> <<A(0, 65001), A(0, 23456), A(0, 65002)>>], [t |-> 1, asns |-> <<A(0, 23456), A(0, 65010), A(0, 65011)>>]>>,
    \* the same ten bytes (02 02 fc00 fc01 02 01 fde8): two sequences of 2-byte AS numbers, or one sequence of two 4-byte ones
    P7 |-> <<[t |-> 2, asns |-> <<A(0, 64512), A(0, 64513)>>], [t |-> 2, asns |-> <<A(0, 65000)>>]>>,
    P8 |-> <<[t |-> 2, asns |-> <<A(64512, 64513), A(513, 65000)>>]>>,
    \* through a confederation and a 2-byte speaker: AS_CONFED_SEQUENCE ( 64600 64601 ), then 65001 AS_TRANS 65002 (goes with Q5)
    P9 |-> <<[t |-> 3, asns |-> <<A(0, 64600), A(0, 64601)>>], [t |-> 2, asns |-> <<A(0, 65001), A(0, 23456), A(0, 65002)>>]>> ]
\* AS4_PATH companions (only meaningful on 2-byte sessions)
As4Paths == [
    none |-> <<>>,
    Q1 |-> <<[t |-> 2, asns |-> <<A(64086, 59905), A(1, 0)>>]>>,                   \* shorter than AS_PATH: merged
    Q2 |-> <<[t |-> 2, asns |-> <<A(0, 65001), A(64086, 59905), A(1, 0)>>]>>,      \* same length: replaces
    Q3 |-> <<[t |-> 2, asns |-> <<A(0, 1), A(0, 2), A(0, 3), A(0, 4), A(0, 5)>>]>>,  \* longer than AS_PATH: ignored
    \* sequence of two and set of three (different counts): 4200000001 65002 { 65536 65010 65011 }
    Q4 |-> <<[t |-> 2, asns |-> <<A(64086, 59905), A(0, 65002)>>], [t |-> 1, asns |-> <<A(1, 0), A(0, 65010), A(0, 65011)>>]>>,
    \* two AS numbers against the three P9 counts (its confederation segment counts for none): 65001 is kept, behind the confederation segment
    Q5 |-> <<[t |-> 2, asns |-> <<A(64086, 59905), A(0, 65002)>>]>> ]

B4(a, b, c, d) == <<a, b, c, d>>
Meds == [none |-> <<>>, zero |-> B4(0, 0, 0, 0), ten |-> B4(0, 0, 0, 10), max |-> B4(255, 255, 255, 255)]
Prefs == [none |-> <<>>, hundred |-> B4(0, 0, 0, 100), big |-> B4(128, 0, 0, 1)]
Comms == [none |-> <<>>, one |-> <<B4(253, 232, 0, 1)>>, two |-> <<B4(253, 232, 0, 1), B4(255, 255, 255, 1)>>]   \* 65000:1, no-export
Unknowns == [none |-> <<>>, small |-> <<250, <<1, 2>>>>, large |-> <<250, Rep(7, 300)>>]

P(bits, bytes, pid) == [bits |-> bits, bytes |-> bytes, pid |-> pid]
V4Sets == [none |-> <<>>, one |-> <<P(24, <<198, 51, 100>>, 1)>>, def |-> <<P(0, <<>>, 1)>>, host |-> <<P(32, <<198, 51, 100, 7>>, 1)>>,
           two |-> <<P(24, <<198, 51, 100>>, 1), P(17, <<203, 0, 128>>, 2)>>]
WdSets == [none |-> <<>>, one |-> <<P(16, <<10, 9>>, 3)>>, two |-> <<P(16, <<10, 9>>, 3), P(24, <<198, 51, 100>>, 1)>>]
V4bSets == [none |-> <<>>, one |-> <<P(24, <<192, 0, 2>>, 5)>>, two |-> <<P(24, <<192, 0, 2>>, 5), P(16, <<172, 16>>, 6)>>]
V6Sets == [none |-> <<>>, one |-> <<P(48, <<32, 1, 13, 184, 0, 1>>, 7)>>,
           two |-> <<P(48, <<32, 1, 13, 184, 0, 1>>, 7), P(64, <<32, 1, 13, 184, 0, 2, 0, 0>>, 8)>>]
NH4 == B4(192, 0, 2, 77)
NH6 == <<32, 1, 13, 184, 0, 0, 0, 0, 0, 0, 0, 0, 0, 0, 0, 1>>
LL6 == <<254, 128, 0, 0, 0, 0, 0, 0, 0, 0, 0, 0, 0, 0, 0, 2>>

Dom == [
    asn4 |-> BOOLEAN, addpath |-> BOOLEAN, ibgp |-> BOOLEAN,
    extnh |-> BOOLEAN,               \* RFC 8950 extended next hop negotiated for ipv4 unicast
    mpr4 |-> BOOLEAN,                \* the MP_REACH_NLRI carries IPv4 prefixes with an IPv6 next hop (needs extnh)
    origin |-> {0, 1, 2},
    path |-> {"P0", "P1", "P2", "P3", "P4", "P5", "P6", "P7", "P8", "P9"},
    as4 |-> {"none", "Q1", "Q2", "Q3", "Q4", "Q5"},
    med |-> {"none", "zero", "ten", "max"},
    pref |-> {"none", "hundred", "big"},
    atomic |-> BOOLEAN,
    aggr |-> BOOLEAN,
    comm |-> {"none", "one", "two"},
    orig |-> BOOLEAN,                \* ORIGINATOR_ID + CLUSTER_LIST
    unkT |-> {"none", "small", "large"},
    unkNT |-> BOOLEAN,
    ext |-> BOOLEAN,                 \* extended-length flag forced on every attribute
    partial |-> BOOLEAN,             \* partial bit on the optional transitive attributes
    rev |-> BOOLEAN,                 \* attributes in descending type order
    nlri |-> {"none", "one", "def", "host", "two"},
    wd |-> {"none", "one", "two"},
    mpr |-> {"none", "one", "two"},
    mprLL |-> BOOLEAN,               \* 32-byte next hop (global + link-local)
    mpu |-> {"none", "one", "two", "eor"},
    fault |-> {<<"none", "none">>} ]

Base == [asn4 |-> TRUE, addpath |-> TRUE, ibgp |-> FALSE, extnh |-> FALSE, mpr4 |-> FALSE, origin |-> 0, path |-> "P2", as4 |-> "none", med |-> "ten", pref |-> "none",
         atomic |-> FALSE, aggr |-> FALSE, comm |-> "one", orig |-> FALSE, unkT |-> "none", unkNT |-> FALSE, ext |-> FALSE,
         partial |-> FALSE, rev |-> FALSE, nlri |-> "one", wd |-> "none", mpr |-> "none", mprLL |-> FALSE, mpu |-> "none", fault |-> <<"none", "none">>]
\* further starting points, so that the neighbourhood explored also covers sessions and shapes three changes away
Bases == { Base,
           [Base EXCEPT !.extnh = TRUE, !.mpr = "one", !.mpr4 = TRUE],                          \* RFC 8950
           [Base EXCEPT !.asn4 = FALSE, !.path = "P5", !.as4 = "Q1"],                            \* 2-byte peer with AS4_PATH
           [Base EXCEPT !.asn4 = FALSE, !.path = "P9", !.as4 = "Q5"],                            \* ... behind a confederation segment
           [Base EXCEPT !.asn4 = FALSE, !.path = "P6", !.as4 = "Q4"],                            \* ... of an aggregate (AS_SET)
           [Base EXCEPT !.nlri = "none", !.mpr = "two", !.mprLL = TRUE, !.addpath = FALSE],      \* IPv6 only, two next hops
           [Base EXCEPT !.nlri = "none", !.wd = "one", !.mpu = "one"],                           \* withdraw-only
           [Base EXCEPT !.asn4 = FALSE, !.ibgp = TRUE, !.path = "P0", !.aggr = TRUE, !.pref = "hundred"] }   \* iBGP, 2-byte AGGREGATOR
Fields == DOMAIN Base

\* rows that are not well-formed UPDATEs for their session
WellFormed(u) ==
    /\ (u.as4 # "none" => ~u.asn4)                                \* AS4_PATH only travels on 2-byte sessions
    /\ (u.asn4 \/ u.path \in {"P0", "P1", "P2", "P5", "P6", "P7", "P9"})             \* a 2-byte AS_PATH cannot carry 4-byte numbers
    /\ (u.path \in {"P5", "P6", "P7", "P9"} => ~u.asn4)
    /\ (u.mprLL => u.mpr # "none")
    /\ (u.mpr4 => u.extnh /\ u.mpr # "none")
    /\ ~(u.mpu = "eor" /\ (u.nlri # "none" \/ u.wd # "none" \/ u.mpr # "none"))

\* ---- the attribute items of u, in ascending type order ------------------------------------
Opt == 128  Trans == 64  Part == 32
Item(name, code, flags, val) == [name |-> name, code |-> code, flags |-> flags, val |-> val]
AggrVal(u) == (IF u.asn4 THEN Asn4Bytes(A(0, 65010)) ELSE Asn2Bytes(A(0, 65010))) \o B4(10, 0, 0, 9)
HasAnnounce(u) == u.nlri # "none" \/ u.mpr # "none"
MpReachVal(u) == U16(IF u.mpr4 THEN 1 ELSE 2) \o <<1>> \o (IF u.mprLL THEN <<32>> \o NH6 \o LL6 ELSE <<16>> \o NH6) \o <<0>>
                 \o EncPrefixes(IF u.mpr4 THEN V4bSets[u.mpr] ELSE V6Sets[u.mpr], u.addpath)
MpUnreachVal(u) == U16(2) \o <<1>> \o (IF u.mpu = "eor" THEN <<>> ELSE EncPrefixes(V6Sets[u.mpu], u.addpath))
OnlyMpu(u) == u.mpu # "none" /\ ~HasAnnounce(u) /\ u.wd = "none"       \* RFC 4760: nothing else is required then

Items(u) ==
    LET pb == IF u.partial THEN Part ELSE 0
        \* a withdraw-only UPDATE (and an End-of-RIB) carries no path attribute besides MP_UNREACH_NLRI
        base == IF ~HasAnnounce(u) THEN <<>>
                ELSE <<Item("origin", 1, Trans, <<u.origin>>),
                       Item("aspath", 2, Trans, EncSegs(Paths[u.path], u.asn4))>>
                     \o (IF u.nlri # "none" THEN <<Item("nexthop", 3, Trans, NH4)>> ELSE <<>>)
                     \o (IF u.med # "none" THEN <<Item("med", 4, Opt, Meds[u.med])>> ELSE <<>>)
                     \o (IF u.pref # "none" THEN <<Item("pref", 5, Trans, Prefs[u.pref])>> ELSE <<>>)
                     \o (IF u.atomic THEN <<Item("atomic", 6, Trans, <<>>)>> ELSE <<>>)
                     \o (IF u.aggr THEN <<Item("aggr", 7, Opt + Trans + pb, AggrVal(u))>> ELSE <<>>)
                     \o (IF u.comm # "none" THEN <<Item("comm", 8, Opt + Trans + pb, Flat(Comms[u.comm]))>> ELSE <<>>)
                     \o (IF u.orig THEN <<Item("originator", 9, Opt, B4(10, 0, 0, 1)), Item("cluster", 10, Opt, B4(10, 0, 0, 2) \o B4(10, 0, 0, 3))>> ELSE <<>>)
        mp == (IF u.mpr # "none" THEN <<Item("mpreach", 14, Opt, MpReachVal(u))>> ELSE <<>>)
              \o (IF u.mpu # "none" THEN <<Item("mpunreach", 15, Opt, MpUnreachVal(u))>> ELSE <<>>)
        tail == (IF u.as4 # "none" /\ HasAnnounce(u) THEN <<Item("as4path", 17, Opt + Trans + pb, EncSegs(As4Paths[u.as4], TRUE))>> ELSE <<>>)
                \o (IF u.unkT # "none" /\ HasAnnounce(u) THEN <<Item("unknownT", Unknowns[u.unkT][1], Opt + Trans + pb, Unknowns[u.unkT][2])>> ELSE <<>>)
                \o (IF u.unkNT /\ HasAnnounce(u) THEN <<Item("unknownNT", 251, Opt, <<9>>)>> ELSE <<>>)
    IN base \o mp \o tail

Reverse(s) == [i \in 1..Len(s) |-> s[Len(s) + 1 - i]]
RECURSIVE EncItems(_, _)
EncItems(items, ext) == IF items = <<>> THEN <<>> ELSE Attr(Head(items).flags, Head(items).code, Head(items).val, ext) \o EncItems(Tail(items), ext)

\* ---- one malformed attribute (C08) --------------------------------------------------------
\* u.fault = <<"none", "none">> or <<attribute name, form>>, form in
\*   "len"     the value is one byte short (one byte long for the empty ATOMIC_AGGREGATE; cut in the next hop for MP_REACH)
\*   "zero"    the value is empty although the attribute does not allow it
\*   "flags"   Optional / Transitive bits contradict the attribute's definition
\*   "value"   ORIGIN 5, AS path segment type 7
\*   "dup"     the attribute occurs a second time (with another value)
\*   "overrun" / "over1" / "over3"  the last attribute declares 5 / 1 / 3 more bytes than the attribute block holds
\*   "nhlen"   MP_REACH_NLRI whose Next Hop Length (24) is not one its family allows
FaultNames == {"origin", "aspath", "nexthop", "med", "pref", "atomic", "aggr", "comm", "originator", "cluster", "as4path", "mpreach", "mpunreach"}
FaultForms == {"len", "zero", "flags", "value", "dup", "overrun", "over1", "over3", "nhlen"}
OverForms == {"overrun", "over1", "over3"}     \* the length field says 5 / 1 / 3 more bytes than follow
OverBy(form) == CASE form = "over1" -> 1 [] form = "over3" -> 3 [] OTHER -> 5
HasItem(u, n) == \E i \in 1..Len(Items(u)) : Items(u)[i].name = n
Applicable(u, f) ==
    /\ HasItem(u, f[1])
    /\ (f[2] = "zero" => f[1] \in {"origin", "nexthop", "med", "pref", "aggr", "comm", "originator", "cluster"})
    /\ (f[2] = "value" => f[1] \in {"origin", "aspath", "as4path"} /\ (f[1] = "aspath" => u.path # "P0"))
    /\ (f[2] = "len" /\ f[1] = "aspath" => u.path # "P0")
    /\ (f[2] = "flags" => f[1] \notin {"mpreach", "mpunreach"})
    /\ (f[2] = "nhlen" => f[1] = "mpreach")
    /\ (f[2] \in OverForms => f[1] \notin {"mpreach", "mpunreach"})

WellKnown == {"origin", "aspath", "nexthop", "pref", "atomic"}
BadFlags(it) == IF it.name \in WellKnown THEN Opt + Trans                   \* well-known marked optional
                ELSE IF it.flags \div 64 % 2 = 1 THEN Opt                   \* optional transitive marked non-transitive
                ELSE Opt + Trans                                            \* optional non-transitive marked transitive
BadValue(it) == IF it.name = "origin" THEN <<5>> ELSE <<7>> \o Tail(it.val)
Mangle(it, form) ==
    CASE form = "len"   -> [it EXCEPT !.val = IF it.name = "atomic" THEN <<0>>
                                              ELSE IF it.name = "mpreach" THEN Take(it.val, 10)
                                              ELSE IF it.name = "mpunreach" THEN Take(it.val, 2)
                                              ELSE Take(it.val, Len(it.val) - 1)]
      [] form = "zero"  -> [it EXCEPT !.val = <<>>]
      [] form = "nhlen" -> [it EXCEPT !.val = SubSeq(it.val, 1, 3) \o <<24>> \o NH6 \o Rep(0, 8) \o Drop(it.val, 4 + it.val[4])]
      [] form = "flags" -> [it EXCEPT !.flags = BadFlags(it)]
      [] form = "value" -> [it EXCEPT !.val = BadValue(it)]
      [] OTHER -> it
\* a second copy with another value (the first one must win)
Other(it) == IF it.name = "origin" THEN [it EXCEPT !.val = <<(it.val[1] + 1) % 3>>]
             ELSE IF it.name = "med" THEN [it EXCEPT !.val = B4(0, 0, 0, 99)]
             ELSE IF it.name = "pref" THEN [it EXCEPT !.val = B4(0, 0, 0, 7)]
             ELSE IF it.name = "nexthop" THEN [it EXCEPT !.val = B4(192, 0, 2, 99)]
             ELSE IF it.name = "comm" THEN [it EXCEPT !.val = B4(0, 9, 0, 9)]
             ELSE it
RECURSIVE ApplyFault(_, _)
ApplyFault(items, f) ==
    IF items = <<>> THEN <<>>
    ELSE IF Head(items).name = f[1]
         THEN (IF f[2] = "dup" THEN <<Head(items), Other(Head(items))>> ELSE <<Mangle(Head(items), f[2])>>) \o Tail(items)
         ELSE <<Head(items)>> \o ApplyFault(Tail(items), f)
\* "overrun": the faulty attribute goes last and its length field says 5 more bytes than follow
MoveLast(items, n) == SelectSeq(items, LAMBDA x : x.name # n) \o SelectSeq(items, LAMBDA x : x.name = n)
AttrRawLen(flags, code, val, declared) == <<(flags \div 32) * 32 + (flags % 16), code, declared>> \o val

FaultyItems(u) == IF u.fault[1] = "none" THEN Items(u)
                  ELSE IF u.fault[2] \in OverForms THEN MoveLast(Items(u), u.fault[1])
                  ELSE ApplyFault(Items(u), u.fault)
FaultyAttrBytes(u) ==
    LET its == IF u.rev /\ u.fault[2] \notin (OverForms \cup {"dup"}) THEN Reverse(FaultyItems(u)) ELSE FaultyItems(u) IN
    IF u.fault[2] \in OverForms
    THEN LET last == its[Len(its)] IN
         EncItems(SubSeq(its, 1, Len(its) - 1), u.ext) \o AttrRawLen(last.flags, last.code, last.val, Len(last.val) + OverBy(u.fault[2]))
    ELSE EncItems(its, u.ext)

\* RFC 7606 section 7 (and 3, 4, 5 for the generic rules): what the receiver must do
Action(u) ==
    LET n == u.fault[1] form == u.fault[2]
        internalOnly == IF u.ibgp THEN "withdraw" ELSE "discard"      \* LOCAL_PREF, ORIGINATOR_ID, CLUSTER_LIST from an external peer
    IN CASE n \in {"mpreach", "mpunreach"} -> "reset"                     \* 7606 3.g / 5.3: the NLRI cannot be located
         [] form = "dup" -> "first"                                       \* 7606 3.g: all but the first occurrence discarded
         [] form \in OverForms -> "withdraw"                              \* 7606 4
         [] n \in {"origin", "aspath", "nexthop", "med", "comm"} -> "withdraw"
         [] n \in {"pref", "originator", "cluster"} -> internalOnly
         [] n \in {"atomic", "aggr", "as4path"} -> "discard"
         [] OTHER -> "withdraw"

AttrBytes(u) == FaultyAttrBytes(u)
Body(u) == EncUpdateBody(EncPrefixes(WdSets[u.wd], u.addpath), AttrBytes(u), EncPrefixes(V4Sets[u.nlri], u.addpath))
Bytes(u) == Msg(2, Body(u))

\* ---- what a receiver must make of it -------------------------------------------------------
Key(fam, p, addpath) == <<fam, p.bits, p.bytes, IF addpath THEN p.pid ELSE -1>>
SeqSet(s) == {s[i] : i \in 1..Len(s)}
Announced(u) ==     \* set of <<key, next hop bytes>>
       {<<Key("v4u", p, u.addpath), NH4>> : p \in SeqSet(V4Sets[u.nlri])}
  \cup (IF u.mpr4 THEN {<<Key("v4u", p, u.addpath), NH6>> : p \in SeqSet(V4bSets[u.mpr])}
        ELSE {<<Key("v6u", p, u.addpath), NH6>> : p \in SeqSet(IF u.mpr = "none" THEN <<>> ELSE V6Sets[u.mpr])})
Withdrawn(u) ==
       {Key("v4u", p, u.addpath) : p \in SeqSet(WdSets[u.wd])}
  \cup {Key("v6u", p, u.addpath) : p \in SeqSet(IF u.mpu \in {"none", "eor"} THEN <<>> ELSE V6Sets[u.mpu])}
IsEor(u) == IF u.mpu = "eor" THEN "v6u"
            ELSE IF u.nlri = "none" /\ u.wd = "none" /\ u.mpr = "none" /\ u.mpu = "none" THEN "v4u" ELSE "none"

\* the AS path a receiver must report (RFC 6793 4.2.3 on 2-byte sessions)
ReportedPath(u) == IF u.asn4 \/ u.as4 = "none" THEN Paths[u.path] ELSE MergeAsPath(Paths[u.path], As4Paths[u.as4])

Outcome(u) ==
    [ eor |-> IsEor(u),
      announce |-> Announced(u),
      withdraw |-> Withdrawn(u),
      hasAttrs |-> HasAnnounce(u),
      origin |-> u.origin,
      path |-> ReportedPath(u),
      med |-> Meds[u.med], pref |-> Prefs[u.pref], atomic |-> u.atomic,
      aggr |-> IF u.aggr THEN <<A(0, 65010), B4(10, 0, 0, 9)>> ELSE <<>>,
      comm |-> Comms[u.comm],
      originator |-> IF u.orig THEN B4(10, 0, 0, 1) ELSE <<>>,
      cluster |-> IF u.orig THEN <<B4(10, 0, 0, 2), B4(10, 0, 0, 3)>> ELSE <<>>,
      unknown |-> IF u.unkT = "none" THEN <<>> ELSE <<Unknowns[u.unkT][1], Unknowns[u.unkT][2]>> ]
=============================================================================
