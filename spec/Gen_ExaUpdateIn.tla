--------------------------- MODULE Gen_ExaUpdateIn ---------------------------
(* Table enumeration for C02/C19: every well-formed abstract UPDATE within Width field changes of the base is an initial
   state; the invariant re-decodes the bytes ExaWire produced with ExaWire's own structural decoder (a self-check of the
   reference codec); the state dump is the case list for the harness. *)
EXTENDS ExaUpdateIn

CONSTANT Width
VARIABLES u, bytes
RECURSIVE Vary(_, _)
Vary(R, k) == IF k = 0 THEN R
              ELSE Vary(R \cup UNION {UNION {{[r EXCEPT ![f] = v] : v \in Dom[f]} : f \in Fields} : r \in R}, k - 1)
Rows == {r \in Vary(Bases, Width) : WellFormed(r)}
GenInit == u \in Rows /\ bytes = Bytes(u)
GenNext == UNCHANGED <<u, bytes>>
GenSpec == GenInit /\ [][GenNext]_<<u, bytes>>

\* the reference codec agrees with itself: sections, TLV walk and prefixes decode back to what was encoded
CodecSelfCheck ==
    LET b == DecUpdateBody(Drop(bytes, 19)) IN
    /\ b.ok
    /\ DecPrefixes(b.wd, u.addpath).ok /\ DecPrefixes(b.wd, u.addpath).ps = [i \in DOMAIN WdSets[u.wd] |-> [WdSets[u.wd][i] EXCEPT !.pid = IF u.addpath THEN @ ELSE -1]]
    /\ DecPrefixes(b.nlri, u.addpath).ok /\ Len(DecPrefixes(b.nlri, u.addpath).ps) = Len(V4Sets[u.nlri])
    /\ DecAttrs(b.attrs).ok /\ Len(DecAttrs(b.attrs).items) = Len(Items(u))
    /\ Len(bytes) <= 4096
=============================================================================
