SPECIFICATION Spec
CONSTANTS
  MaxLen = 3
  SharedId = FALSE
INVARIANT HistoryFree
CHECK_DEADLOCK FALSE
