-------------------------- MODULE Judge_ExaUpdateOut --------------------------
(* Verdicts for C01: one line per executed row: [id, u, error, msgs: Seq(bytes)]. *)
EXTENDS ExaUpdateOut, Json, IOUtils
Tr == ndJsonDeserialize(IOEnv.TRACE_FILE)
JU(j) == [ibgp |-> j.ibgp, local4 |-> j.local4, pasn4 |-> j.pasn4, addpath |-> j.addpath, ext |-> j.ext, fam |-> j.fam, pfx |-> j.pfx, pid |-> j.pid,
          nh |-> j.nh, second |-> j.second, origin |-> j.origin, aspath |-> j.aspath, med |-> j.med, pref |-> j.pref, atomic |-> j.atomic, aggr |-> j.aggr, comm |-> j.comm, orig |-> j.orig]
Viol(r, j) ==
    IF j.error # "" THEN {"C01-encoding-raised"}
    ELSE IF Len(j.msgs) # 1 THEN {"C01-one-route-did-not-give-exactly-one-update"}
    ELSE MsgViol(r, j.msgs[1])
VARIABLES l, bad
JInit == l = 1 /\ bad = <<>>
JNext == /\ l <= Len(Tr) /\ l' = l + 1
         /\ LET v == Viol(JU(Tr[l].u), Tr[l]) IN bad' = IF v = {} THEN bad ELSE Append(bad, [line |-> l, id |-> Tr[l].id, clauses |-> v])
JSpec == JInit /\ [][JNext]_<<l, bad>>
Report == (l = Len(Tr) + 1) => PrintT(<<"VERIF", "verdict", Len(Tr), ToJsonArray(bad)>>)
=============================================================================
