----------------------------- MODULE Gen_ExaCodec -----------------------------
(* Table enumeration for C15: every well-formed NLRI row within Width field changes of a base, with its RFC encoding; and
   every pair (row, row with one field changed) for the identity contract. *)
EXTENDS ExaCodec
CONSTANT Width
VARIABLES u, bytes
RECURSIVE Vary(_, _)
Vary(R, k) == IF k = 0 THEN R
              ELSE Vary(R \cup UNION {UNION {{[r EXCEPT ![f] = v] : v \in Dom[f]} : f \in Fields} : r \in R}, k - 1)
Rows == {r \in Vary(Bases, Width) : WellFormed(r)}
Neighbours(r) == {x \in UNION {{[r EXCEPT ![f] = v] : v \in Dom[f]} : f \in Fields} : WellFormed(x)}
\* u = [r, r2]: r2 = r for the single rows
GenInit == /\ u \in {[r |-> r, r2 |-> r] : r \in Rows} \cup UNION {{[r |-> r, r2 |-> x] : x \in Neighbours(r) \ {r}} : r \in Rows}
           /\ bytes = Ref(u.r)
GenNext == UNCHANGED <<u, bytes>>
GenSpec == GenInit /\ [][GenNext]_<<u, bytes>>
\* self-check of the reference encoding: the length octet says what follows, and it never exceeds what the family allows
TableOK == LET p == Prefix(u.r) n == Len(LabelStack(u.r)) body == Drop(bytes, Len(PidBytes(u.r))) IN
           /\ body[1] = 24 * n + (IF Vpn(u.r) THEN 64 ELSE 0) + p.bits
           /\ Len(body) = 1 + 3 * n + (IF Vpn(u.r) THEN 8 ELSE 0) + (p.bits + 7) \div 8
           /\ (n > 0 => body[1 + 3 * n] % 2 = 1)                                  \* bottom of stack on the last label
           /\ (n > 1 => body[4] % 2 = 0)                                          \* and not on the first of several
=============================================================================
