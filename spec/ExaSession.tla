----------------------------- MODULE ExaSession -----------------------------
(***************************************************************************)
(* One ExaBGP peer: the BGP finite state machine as run by                  *)
(* reactor/peer/peer.py (Peer._establish / _main / _run), its transport,     *)
(* the hold and keepalive timers (bgp/timer.py), the NOTIFICATIONs it        *)
(* writes, and the up/down events it gives the API.                          *)
(*                                                                         *)
(* Written to be bound: one action per observable step of the code           *)
(* (FSM.change, one message written, transport closed, one message consumed  *)
(* from the transport, API event).  Every action X is split into             *)
(*    XViol(args)  the set of NAMED clauses of the listed properties that    *)
(*                 the step would violate in the current state, and          *)
(*    XEff(args)   its effect on the state.                                  *)
(* The specification proper enables X only when XViol = {} (MC_ExaSession);   *)
(* trace validation (Trace_ExaSession) applies XEff for every logged event    *)
(* and collects the violated clauses, so that a verdict is total and names    *)
(* the failing clause.  Clause names start with the property they belong to.  *)
(*                                                                         *)
(* Every action takes the time `t` at which it happens.                      *)
(***************************************************************************)
EXTENDS Integers, Sequences, FiniteSets, TLC

CONSTANTS G,          \* timer granularity in ms (whole-second timers + 100 ms poll): see DESIGN 5/C12
          OpenWait    \* ms the peer waits for the remote OPEN (exabgp.bgp.openwait)

States    == {"IDLE", "ACTIVE", "CONNECT", "OPENSENT", "OPENCONFIRM", "ESTABLISHED"}
Connected == {"CONNECT", "OPENSENT", "OPENCONFIRM", "ESTABLISHED"}

\* RFC 4271 8.2.2 as documented in bgp/fsm.py (to: from), written <<from, to>>
Allowed == { <<"IDLE","IDLE">>, <<"ACTIVE","IDLE">>, <<"CONNECT","IDLE">>, <<"OPENSENT","IDLE">>,
             <<"OPENCONFIRM","IDLE">>, <<"ESTABLISHED","IDLE">>,
             <<"IDLE","ACTIVE">>, <<"ACTIVE","ACTIVE">>, <<"OPENSENT","ACTIVE">>,
             <<"IDLE","CONNECT">>, <<"CONNECT","CONNECT">>, <<"ACTIVE","CONNECT">>,
             <<"CONNECT","OPENSENT">>,
             <<"OPENSENT","OPENCONFIRM">>, <<"OPENCONFIRM","OPENCONFIRM">>,
             <<"OPENCONFIRM","ESTABLISHED">>, <<"ESTABLISHED","ESTABLISHED">> }

OPEN == 1  UPDATE == 2  NOTIFICATION == 3  KEEPALIVE == 4  REFRESH == 5  OPERATIONAL == 6

\* Classes of things the remote end can put on the transport (harness/sessioncheck.py builds the bytes).
Classes == { "OPEN", "OPEN-version", "OPEN-as", "OPEN-id", "OPEN-hold", "OPEN-trunc",
             "KA", "UPD", "UPD-eor", "UPD-reset", "UPD-tolerated", "NOTIF", "REFRESH",
             "HDR-marker", "HDR-length", "HDR-type", "EOF",
             "OPER",              \* OPERATIONAL (type 6, advisory demand message) on a session that did not negotiate the capability
             "UPD-4097",          \* well-formed UPDATE of 4097 bytes on a session that negotiated extended messages
             "HDR-length-4097" }  \* the same bytes where extended messages were not negotiated by both sides: 1/2

TypeOf(c) == CASE c \in {"OPEN", "OPEN-version", "OPEN-as", "OPEN-id", "OPEN-hold", "OPEN-trunc"} -> OPEN
               [] c \in {"UPD", "UPD-eor", "UPD-reset", "UPD-tolerated", "UPD-4097"} -> UPDATE
               [] c = "KA" -> KEEPALIVE
               [] c = "NOTIF" -> NOTIFICATION
               [] c = "REFRESH" -> REFRESH
               [] c = "OPER" -> OPERATIONAL
               [] OTHER -> 0

\* Required(c, s): the NOTIFICATIONs one of which MUST answer class c consumed in state s, as a set of
\* <<code, set of subcodes>> ({} for the subcodes = the RFCs leave the subcode open); {} = no NOTIFICATION is required.
\* Permitted(c, s): NOTIFICATIONs that MAY additionally be chosen if the implementation decides to end the session.
\* RFC 4271 6.1 (header), 6.2 (OPEN), 6.3 + RFC 7606 (UPDATE), 6.6 + RFC 6608 (FSM).
OpenErr(c) == CASE c = "OPEN-version" -> {<<2, {1}>>}
                [] c = "OPEN-as"      -> {<<2, {2}>>}
                [] c = "OPEN-id"      -> {<<2, {3}>>}
                [] c = "OPEN-hold"    -> {<<2, {6}>>}
                [] c = "OPEN-trunc"   -> {<<2, {}>>, <<1, {2}>>}
                [] OTHER -> {}
Required(c, s) ==
    CASE c = "HDR-marker" -> {<<1, {1}>>}
      [] c \in {"HDR-length", "HDR-length-4097"} -> {<<1, {2}>>}
      [] c = "HDR-type"   -> {<<1, {3}>>}
      [] c \in {"EOF", "NOTIF"} -> {}
      [] s \in {"OPENSENT", "CONNECT"} /\ c = "OPEN" -> {}
      [] s \in {"OPENSENT", "CONNECT"} /\ TypeOf(c) = OPEN -> OpenErr(c)
      [] s = "OPENSENT"                        -> {<<5, {1}>>}                       \* anything else in OpenSent (RFC 6608)
      [] s = "OPENCONFIRM" /\ c = "KA"         -> {}
      [] s = "OPENCONFIRM" /\ TypeOf(c) = OPEN -> {<<5, {2}>>} \cup OpenErr(c)     \* unexpected, or refused for what it says
      [] s = "OPENCONFIRM"                     -> {<<5, {2}>>}
      [] s = "ESTABLISHED" /\ c = "UPD-reset"  -> {<<3, {}>>}
      [] OTHER -> {}
Permitted(c, s) ==
    CASE s = "ESTABLISHED" /\ TypeOf(c) = OPEN -> {<<5, {3}>>, <<6, {}>>} \cup OpenErr(c)   \* an OPEN on an established session may be ignored
      [] s = "ESTABLISHED" /\ c = "OPER" -> {<<1, {3}>>, <<5, {}>>}                           \* not negotiated: a type we do not speak, or ignored
      [] s = "ESTABLISHED" /\ c = "UPD-tolerated" -> {<<3, {}>>}                            \* RFC 7606 prefers treat-as-withdraw
      [] s \in {"OPENSENT", "CONNECT"} /\ TypeOf(c) = UPDATE -> {<<3, {}>>}                  \* decoded before any capability is negotiated: may not parse
      [] s = "OPENCONFIRM" /\ c \in {"UPD-reset", "UPD-tolerated"} -> {<<3, {}>>}             \* both unexpected (5/2) and malformed (3/x): either names the error
      [] OTHER -> {}

Fatal(c, s) == Required(c, s) # {} \/ c \in {"EOF", "NOTIF"}

VARIABLES
    fsm,       \* FSM state
    open,      \* our end of the transport is open
    sentOpen,  \* an OPEN was written on this transport
    gotOpen,   \* a valid OPEN was consumed on this transport
    gotKA,     \* a KEEPALIVE was consumed on this transport after the OPEN
    hold,      \* negotiated hold time in ms (0 = none); meaningful once gotOpen
    inq,       \* <<class, offered hold>> handed to the kernel by the remote end and not yet consumed
    fault,     \* NOTIFICATIONs one of which the peer has to write because of what it consumed; {} none
    mayFault,  \* NOTIFICATIONs it may additionally choose
    closing,   \* the session must end without NOTIFICATION (EOF / NOTIFICATION consumed)
    notified,  \* a NOTIFICATION was written on this transport
    lastRx,    \* time of the last message consumed in ESTABLISHED (or of establishment)
    lastKA,    \* time of the last KEEPALIVE written in ESTABLISHED (or of establishment)
    connAt,    \* time the current transport was opened
    apiUp,     \* the API was told "up" and not yet "down"
    tear,      \* teardown code requested by the operator (0 none)
    leftAt,    \* time at which a connected state was left with the transport still open (-1 none)
    now

svars == <<fsm, open, sentOpen, gotOpen, gotKA, hold, inq, fault, mayFault, closing, notified, lastRx, lastKA, connAt, apiUp, tear, leftAt>>
vars  == <<svars, now>>

NoFault == {}
NotifMark == <<0, {}>>              \* kept in mayFault once a NOTIFICATION was consumed on this transport (no NOTIFICATION has code 0)
GotNotif  == NotifMark \in mayFault
ReplaceMark == <<-1, {}>>           \* kept in mayFault while an inbound connection is being handled (it may replace the transport)
Chk(name, ok) == IF ok THEN {} ELSE {name}

Init ==
    /\ fsm = "IDLE" /\ open = FALSE /\ sentOpen = FALSE /\ gotOpen = FALSE /\ gotKA = FALSE /\ hold = 0
    /\ inq = <<>> /\ fault = NoFault /\ mayFault = {} /\ closing = FALSE /\ notified = FALSE
    /\ lastRx = 0 /\ lastKA = 0 /\ connAt = 0 /\ apiUp = FALSE /\ tear = 0 /\ leftAt = -1 /\ now = 0

\* ---------------------------------------------------------------------------------------
\* environment
NewTransportViol == Chk("C05-new-transport-while-one-is-open", ~open)
                    \cup Chk("C05-connection-accepted-while-established", fsm # "ESTABLISHED")
NewTransportEff(t) ==               \* outgoing connect succeeded, or Peer.handle_connection accepted an inbound connection
    /\ open' = TRUE /\ sentOpen' = FALSE /\ gotOpen' = FALSE /\ gotKA' = FALSE /\ hold' = 0
    /\ inq' = <<>> /\ fault' = NoFault /\ mayFault' = {} /\ closing' = FALSE /\ notified' = FALSE /\ connAt' = t /\ leftAt' = -1
    /\ UNCHANGED <<fsm, lastRx, lastKA, apiUp, tear>>

RemoteSendEff(c, h) ==              \* h = hold time offered when c is an OPEN (ms), else 0
    /\ inq' = Append(inq, <<c, h>>)
    /\ UNCHANGED <<fsm, open, sentOpen, gotOpen, gotKA, hold, fault, mayFault, closing, notified, lastRx, lastKA, connAt, apiUp, tear, leftAt>>

TeardownEff(code) ==
    /\ tear' = code
    /\ UNCHANGED <<fsm, open, sentOpen, gotOpen, gotKA, hold, inq, fault, mayFault, closing, notified, lastRx, lastKA, connAt, apiUp, leftAt>>

\* ---------------------------------------------------------------------------------------
\* system
\* the peer consumed the next thing from its transport (Protocol.read_message returned / raised)
ConsumeViol == Chk("C06-message-delivered-that-was-not-sent", inq # <<>>)
               \cup Chk("C10-message-read-after-notification", ~notified)
ConsumeEff(t, cfgHold) ==
    IF inq = <<>> THEN UNCHANGED svars
    ELSE
    /\ LET c == Head(inq)[1]
           holdOffered == IF Head(inq)[2] < cfgHold THEN Head(inq)[2] ELSE cfgHold
       IN
       /\ inq' = Tail(inq)
       /\ fault' = IF Required(c, fsm) # {} THEN Required(c, fsm) ELSE fault
       /\ mayFault' = mayFault \cup Permitted(c, fsm) \cup (IF c = "NOTIF" THEN {NotifMark} ELSE {})
                      \* RFC 4271 4.4: with a zero hold time KEEPALIVEs MUST NOT be sent; the code tolerates one, then 2/6
                      \cup (IF c = "KA" /\ fsm = "ESTABLISHED" /\ hold = 0 THEN {<<2, {6}>>, <<5, {3}>>} ELSE {})
       /\ closing' = (closing \/ c \in {"EOF", "NOTIF"})
       /\ gotOpen' = (gotOpen \/ (c = "OPEN" /\ fsm \in {"OPENSENT", "CONNECT"}))
       /\ gotKA' = (gotKA \/ (c = "KA" /\ fsm = "OPENCONFIRM" /\ gotOpen))
       /\ hold' = IF c = "OPEN" /\ fsm \in {"OPENSENT", "CONNECT"} THEN holdOffered ELSE hold
       /\ lastRx' = IF fsm = "ESTABLISHED" /\ TypeOf(c) # 0 /\ ~Fatal(c, fsm) THEN t ELSE lastRx
    /\ UNCHANGED <<fsm, open, sentOpen, notified, lastKA, connAt, apiUp, tear, leftAt>>

HoldExpired(t) == fsm = "ESTABLISHED" /\ hold > 0 /\ t - lastRx > hold

\* which NOTIFICATION may be written now (C10 / C12)
Justified(code, sub, t) ==
    \/ \E f \in fault \cup mayFault : f[1] = code /\ (f[2] = {} \/ sub \in f[2])
    \/ HoldExpired(t) /\ <<code, sub>> = <<4, 0>>
    \/ tear # 0 /\ code = 6            \* Cease; the subcode is the operator's business (the code sends 6/3 when the
                                       \* teardown is noticed before the main loop, 6/<requested> from the loop)
    \/ fsm = "OPENSENT" /\ ~gotOpen /\ t - connAt >= OpenWait /\ <<code, sub>> = <<5, 1>>

NotifyClause(code, sub, t) ==
    IF GotNotif THEN {"C10-notification-answers-a-notification-or-eof"}     \* never, whatever else would justify one (teardown, timer)
    ELSE IF Justified(code, sub, t) THEN {}
    ELSE IF closing THEN {"C10-notification-answers-a-notification-or-eof"}
    ELSE IF <<code, sub>> = <<4, 0>> THEN {"C12-hold-timer-fired-without-H-of-silence"}
    ELSE IF fault # NoFault THEN {"C10-wrong-notification-code-for-the-error"}
    ELSE {"C10-notification-without-cause"}

TxViol(type, code, sub, t) ==
         Chk("C10-write-after-notification", ~notified)
    \cup Chk("C05-write-on-closed-transport", open)
    \cup Chk("C05-open-sent-outside-connect", type = OPEN => fsm = "CONNECT" /\ ~sentOpen)
    \cup Chk("C05-update-or-refresh-sent-outside-established", type \in {UPDATE, REFRESH} => fsm = "ESTABLISHED")
    \cup Chk("C05-keepalive-sent-before-openconfirm", type = KEEPALIVE => fsm \in {"OPENCONFIRM", "ESTABLISHED"})
    \cup Chk("C12-periodic-keepalive-with-zero-hold-time", (type = KEEPALIVE /\ fsm = "ESTABLISHED") => hold > 0)
    \cup (IF type = NOTIFICATION THEN NotifyClause(code, sub, t) ELSE {})
    \cup Chk("C10-something-else-written-after-an-error-was-detected", (type # NOTIFICATION) => (fault = NoFault /\ ~closing))
TxEff(type, t) ==
    /\ sentOpen' = (sentOpen \/ type = OPEN)
    /\ notified' = (notified \/ type = NOTIFICATION)
    /\ lastKA' = IF type = KEEPALIVE /\ fsm = "ESTABLISHED" THEN t ELSE lastKA
    /\ UNCHANGED <<fsm, open, gotOpen, gotKA, hold, inq, fault, mayFault, closing, lastRx, connAt, apiUp, tear, leftAt>>

FsmViol(frm, to) ==
         Chk("C05-logged-source-state-is-not-the-current-state", fsm = frm)
    \cup Chk("C05-transition-not-in-RFC4271", <<frm, to>> \in Allowed)
    \cup Chk("C05-connect-without-transport", to = "CONNECT" => open)
    \cup Chk("C05-opensent-without-sending-open", to = "OPENSENT" => (open /\ sentOpen))
    \cup Chk("C05-openconfirm-without-valid-peer-open", to = "OPENCONFIRM" => (open /\ sentOpen /\ gotOpen /\ fault = NoFault))
    \cup Chk("C05-established-without-open-open-keepalive", (to = "ESTABLISHED" /\ frm # "ESTABLISHED") =>
                                                              (open /\ sentOpen /\ gotOpen /\ gotKA /\ fault = NoFault /\ ~closing))
FsmEff(frm, to, t) ==
    /\ fsm' = to
    /\ leftAt' = IF frm \in Connected /\ to \notin Connected /\ open THEN t ELSE leftAt
    /\ lastRx' = IF to = "ESTABLISHED" /\ frm # "ESTABLISHED" THEN t ELSE lastRx
    /\ lastKA' = IF to = "ESTABLISHED" /\ frm # "ESTABLISHED" THEN t ELSE lastKA
    /\ UNCHANGED <<open, sentOpen, gotOpen, gotKA, hold, inq, fault, mayFault, closing, notified, connAt, apiUp, tear>>

\* The transport is closed: a detected error must have been notified first (C10: "the last message it writes is a
\* single NOTIFICATION"), unless the remote end is already gone.
CloseViol ==
    Chk("C10-session-ended-on-error-without-notification",
        (fault # NoFault /\ ~closing) => notified)
    \* C10 "whenever ExaBGP ends a session because of something it received or a timer, the last message it writes is a
    \* NOTIFICATION": a connected state was left by the peer's own doing (leftAt), the remote end is still there, nothing
    \* was written -- the session was dropped silently (an exception that is not a Notify escaped, typically)
    \cup Chk("C10-session-dropped-without-notification",
             \* (an end asked for by the operator -- teardown, neighbour removed -- is not "something received or a timer")
             (leftAt >= 0 /\ ~closing /\ ReplaceMark \notin mayFault /\ tear = 0) => notified)
CloseEff ==
    /\ open' = FALSE /\ leftAt' = -1 /\ inq' = <<>>
    \* _reset() forgets the pending teardown whatever ended the session; handle_connection, which closes the transport an
    \* inbound connection replaces, calls _close() only: the teardown asked for is still owed on the new transport
    /\ tear' = IF ReplaceMark \in mayFault THEN tear ELSE 0
    /\ UNCHANGED <<fsm, sentOpen, gotOpen, gotKA, hold, fault, mayFault, closing, notified, lastRx, lastKA, connAt, apiUp>>

ApiUpViol == Chk("C05-api-up-outside-established", fsm = "ESTABLISHED")
             \cup Chk("C05-api-up-twice-without-down", ~apiUp)
ApiUpEff ==
    /\ apiUp' = TRUE
    /\ UNCHANGED <<fsm, open, sentOpen, gotOpen, gotKA, hold, inq, fault, mayFault, closing, notified, lastRx, lastKA, connAt, tear, leftAt>>
ApiDownEff ==                       \* _close() tells "down" from any state but IDLE/ACTIVE (also without a preceding "up")
    /\ apiUp' = FALSE
    /\ UNCHANGED <<fsm, open, sentOpen, gotOpen, gotKA, hold, inq, fault, mayFault, closing, notified, lastRx, lastKA, connAt, tear, leftAt>>

\* ---------------------------------------------------------------------------------------
\* properties evaluated when time has reached t (before the effect of whatever happens at t)
TimeViol(t) ==
         Chk("C05-left-a-connected-state-with-the-transport-open", (leftAt >= 0 /\ t > leftAt) => ~open)
    \cup Chk("C05-api-up-not-followed-by-down-after-leaving-established", (apiUp /\ fsm \notin {"ESTABLISHED"} /\ leftAt >= 0 /\ t > leftAt) => FALSE)
    \cup Chk("C12-silence-longer-than-hold-time-not-ended-with-4/0",
             (fsm = "ESTABLISHED" /\ open /\ ~notified /\ ~closing /\ hold > 0) => t - lastRx <= hold + G)
    \cup Chk("C12-more-than-a-third-of-hold-time-without-keepalive",
             (fsm = "ESTABLISHED" /\ open /\ ~notified /\ ~closing /\ fault = NoFault /\ tear = 0 /\ hold > 0)
                 => t - lastKA <= (hold \div 3000) * 1000 + G)
    \cup Chk("C12-open-wait-exceeded-without-5/1",
             (fsm = "OPENSENT" /\ open /\ ~notified /\ ~gotOpen /\ inq = <<>>) => t - connAt <= OpenWait + G)
    \cup Chk("C10-detected-error-not-notified-in-time",
             (open /\ fault # NoFault /\ ~notified /\ ~closing) => t <= now + G)

\* ---------------------------------------------------------------------------------------
\* state properties (hold by construction of the guards; checked by TLC in MC_ExaSession and on every trace state)
EstablishedOnlyAfter == (fsm = "ESTABLISHED" /\ open) => (sentOpen /\ gotOpen /\ gotKA)
TypeOK == fsm \in States /\ open \in BOOLEAN /\ notified \in BOOLEAN /\ apiUp \in BOOLEAN
=============================================================================
