SPECIFICATION Spec
CONSTANTS
  MaxLen = 3
  SharedId = TRUE
INVARIANT HistoryFree
CHECK_DEADLOCK FALSE
