------------------------------ MODULE ExaEvent ------------------------------
(***************************************************************************)
(* C13: API events stay well-formed whatever a peer sends.                  *)
(*                                                                         *)
(* A row = (kind of message and the slot the peer controls in it, the class  *)
(* of bytes it puts there, the encoder and API version of the helper         *)
(* process).  The harness sends the message through the real decoder and     *)
(* Processes.message(); what is queued for the helper is abstracted into a   *)
(* record (Rec below) and WellFormed names what the property requires of it.  *)
(***************************************************************************)
EXTENDS Naturals, Sequences, FiniteSets, TLC

Kinds == {"open-host", "open-domain", "open-swver", "open-unknown-cap",
          "notif-shutdown", "notif-reset", "notif-data",
          "upd-unknown-attr", "upd-ls-node-name", "upd-ls-opaque", "upd-sid-twice", "upd-sid-srgb-twice", "upd-aggr-both", "upd-sid-srv6-subsub-twice", "upd-sid-srv6-sub-twice",
          "oper-adm", "oper-asm", "oper-unknown",
          "state-down", "negotiated"}
\* the bytes the peer puts in the slot
Payloads == {"plain", "quote", "bslash", "newline", "cr", "tab", "ctrl", "del", "nul", "forge", "forge-event", "utf8", "badutf8", "brace", "long"}
Encoders == {"json", "text"}
Versions == {4, 6}
\* kinds whose slot holds no free bytes: only one payload makes sense
Fixed == {"upd-sid-twice", "upd-sid-srgb-twice", "upd-aggr-both", "upd-sid-srv6-subsub-twice", "upd-sid-srv6-sub-twice", "state-down", "negotiated"}
Modes == {"parsed", "consolidate"}                      \* consolidate: the raw header and body travel with the parsed event
Rows == {r \in [kind : Kinds, pay : Payloads, enc : Encoders, version : Versions, mode : Modes] : r.kind \in Fixed => (r.pay = "plain" /\ r.mode = "parsed")}

\* Rec: [rendered, written: BOOLEAN, records: Nat,                      -- one event must give exactly one record
\*       fmt: "json" | "text", lines: non-blank lines of the record, benignLines: the same for the harmless payload, ascii: BOOLEAN,
\*       parses, nodup, envelope, shapeSame: BOOLEAN (json), control: BOOLEAN (text: a control character or line break from peer data)]
Chk(name, ok) == IF ok THEN {} ELSE {name}
WellFormed(r, j) ==
    IF ~j.rendered THEN {"C13-event-could-not-be-rendered"}
    ELSE IF ~j.written THEN {"C13-event-could-not-be-written-to-the-pipe"}
    ELSE IF j.records = 0 THEN {}                     \* this encoder does not report this event: nothing was written
    ELSE Chk("C13-one-event-gave-several-records", j.records = 1)
         \* a JSON event is one line; a text event has the lines of the same event carrying a harmless string
         \* (an UPDATE is start / one line per route / end), blank lines not counted
         \cup Chk("C13-peer-bytes-added-or-removed-a-line", j.lines = (IF j.fmt = "json" THEN 1 ELSE j.benignLines))
         \cup (IF j.fmt = "json"
               THEN Chk("C13-json-record-does-not-parse", j.parses)
                    \cup Chk("C13-json-duplicate-key-in-an-object", j.parses => j.nodup)
                    \cup Chk("C13-json-envelope-missing", j.parses => j.envelope)
                    \cup Chk("C13-peer-bytes-changed-the-structure-of-the-record", j.parses => j.shapeSame)
               ELSE Chk("C13-text-record-carries-a-control-character-from-peer-data", ~j.control))
=============================================================================
