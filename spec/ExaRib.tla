------------------------------- MODULE ExaRib -------------------------------
(***************************************************************************)
(* Adj-RIB-Out of one ExaBGP neighbour: operator/API operations, the flush  *)
(* generator (OutgoingRIB.updates), the wire, session loss / restart,       *)
(* watchdogs, route refresh, and configuration reload.                      *)
(*                                                                         *)
(* Structured like src/exabgp/rib/outgoing.py + rib/cache.py (one action    *)
(* per public entry point), not like a text-book RIB, so that every action  *)
(* can be bound to one call on the real object (see harness/rib_driver.py). *)
(*                                                                         *)
(* Properties: C04 (Converged, NoResurrection), C11 (Resync, EorAfterBatch),*)
(*             C17 (ReloadDelta via Converged after ReloadApply).           *)
(***************************************************************************)
EXTENDS Naturals, Sequences, FiniteSets, TLC

CONSTANTS Keys,              \* route identities: (family, prefix, path-id)
          Attrs,             \* (attribute set, next hop) values
          Fams,              \* address families negotiated / configured
          AttrIdx(_, _),     \* what AttributeCollection.index() distinguishes for (key, attr): next hop and family are part of it
          FamOf(_),          \* family of a key
          Grouped(_),        \* updates(grouped=True) merges this family's routes of one attribute set
          WdNames,           \* watchdog names
          EmitSuperseded,    \* TRUE = behaviour of the tree before "fix: do not send a superseded queued announce after its replacement"
          RefreshSurvivesWithdraw \* TRUE = behaviour of the tree before "fix: a withdraw cancels the queued refresh of that route"

None == "none"
AttrOrNone == Attrs \cup {None}

VARIABLES cache,      \* [Keys -> AttrOrNone]  what ExaBGP reports as Adj-RIB-Out (Cache._seen)
          newNlri,    \* [Keys -> AttrOrNone]  _new_nlri
          groups,     \* Seq([idx, fams: Seq([fam, ent: Seq(<<k,a>>)])])  _new_attr_af_nlri (ordered dicts)
          pendWd,     \* Seq([fam, keys: Seq(Keys)])  _pending_withdraws (ordered dicts)
          refresh,    \* Seq(<<k,a>>)           _refresh_routes
          refreshFams,\* SUBSET Fams            _refresh_families
          gen,        \* [live, q]              snapshot held by a live updates() generator
          peer,       \* [Keys -> AttrOrNone]  table obtained by applying every UPDATE sent on this session
          up,         \* BOOLEAN                session established
          inclWd,     \* BOOLEAN                include_withdraw (FALSE until the first generator of a session is exhausted)
          eorDue,     \* BOOLEAN                send_eor: EOR for every family still to be sent
          eorSent,    \* SUBSET Fams            EORs seen on the wire on this session
          wdog,       \* [WdNames -> [plus: SUBSET (Keys \X Attrs), minus: SUBSET (Keys \X Attrs)]]
          act         \* observation only: last action (excluded from the VIEW)

vars == <<cache, newNlri, groups, pendWd, refresh, refreshFams, gen, peer, up, inclWd, eorDue, eorSent, wdog, act>>
View == <<cache, newNlri, groups, pendWd, refresh, refreshFams, gen, peer, up, inclWd, eorDue, eorSent, wdog>>

Pending == (\E k \in Keys : newNlri[k] # None) \/ refresh # <<>> \/ pendWd # <<>>

\* ---------------------------------------------------------------------------------------
\* helpers on the ordered structures (python dicts keep insertion order; assignment keeps position)
HasKey(ent, k)    == \E i \in 1..Len(ent) : ent[i][1] = k
DropKey(ent, k)   == SelectSeq(ent, LAMBDA e : e[1] # k)
PutKey(ent, k, a) == IF HasKey(ent, k)
                     THEN [i \in 1..Len(ent) |-> IF ent[i][1] = k THEN <<k, a>> ELSE ent[i]]
                     ELSE Append(ent, <<k, a>>)

FamPut(fs, fam, k, a) ==
    IF \E j \in 1..Len(fs) : fs[j].fam = fam
    THEN [j \in 1..Len(fs) |-> IF fs[j].fam = fam THEN [fs[j] EXCEPT !.ent = PutKey(@, k, a)] ELSE fs[j]]
    ELSE Append(fs, [fam |-> fam, ent |-> <<<<k, a>>>>])
FamDrop(fs, fam, k) ==
    [j \in 1..Len(fs) |-> IF fs[j].fam = fam THEN [fs[j] EXCEPT !.ent = DropKey(@, k)] ELSE fs[j]]

InsertInto(gs, idx, fam, k, a) ==
    IF \E i \in 1..Len(gs) : gs[i].idx = idx
    THEN [i \in 1..Len(gs) |-> IF gs[i].idx = idx THEN [gs[i] EXCEPT !.fams = FamPut(@, fam, k, a)] ELSE gs[i]]
    ELSE Append(gs, [idx |-> idx, fams |-> <<[fam |-> fam, ent |-> <<<<k, a>>>>]>>])
RemoveFrom(gs, idx, fam, k) ==
    [i \in 1..Len(gs) |-> IF gs[i].idx = idx THEN [gs[i] EXCEPT !.fams = FamDrop(@, fam, k)] ELSE gs[i]]

WdPut(pw, fam, k) ==
    IF \E j \in 1..Len(pw) : pw[j].fam = fam
    THEN [j \in 1..Len(pw) |-> IF pw[j].fam = fam /\ ~(\E i \in 1..Len(pw[j].keys) : pw[j].keys[i] = k)
                               THEN [pw[j] EXCEPT !.keys = Append(@, k)] ELSE pw[j]]
    ELSE Append(pw, [fam |-> fam, keys |-> <<k>>])

\* ---------------------------------------------------------------------------------------
\* pure state transformers shared by several actions (add_to_rib / del_from_rib)
\* st = [cache, newNlri, groups, pendWd]
St == [cache |-> cache, newNlri |-> newNlri, groups |-> groups, pendWd |-> pendWd, refresh |-> refresh]

AddRoute(st, k, a, force) ==                      \* add_to_rib -> _update_rib
    IF ~force /\ st.cache[k] = a                  \* in_cache(): same route, same attributes, same next hop
    THEN st
    ELSE \* a queued announce of k under another attribute set is NOT removed (the repository's tests pin that both are
         \* sent when the older one still precedes its replacement); updates() filters the harmful ones, see Live below
         [st EXCEPT !.groups  = InsertInto(@, AttrIdx(k, a), FamOf(k), k, a),
                    !.newNlri = [@ EXCEPT ![k] = a],
                    !.cache   = [@ EXCEPT ![k] = a]]

DelRoute(st, k) ==                                \* del_from_rib -> _del_from_rib_impl
    [st EXCEPT !.groups  = IF st.newNlri[k] # None THEN RemoveFrom(@, AttrIdx(k, st.newNlri[k]), FamOf(k), k) ELSE @,
               !.newNlri = [@ EXCEPT ![k] = None],
               !.pendWd  = WdPut(@, FamOf(k), k),
               !.refresh = IF RefreshSurvivesWithdraw THEN @ ELSE SelectSeq(@, LAMBDA e : e[1] # k),   \* intended: no refresh of a withdrawn route
               !.cache   = [@ EXCEPT ![k] = None]]

SetSt(st) == /\ cache' = st.cache /\ newNlri' = st.newNlri /\ groups' = st.groups /\ pendWd' = st.pendWd /\ refresh' = st.refresh

\* fold a sequence of operations (used by restart / reload / watchdog / withdraw-all)
RECURSIVE AddAll(_, _, _)
AddAll(st, s, force) == IF s = <<>> THEN st ELSE AddAll(AddRoute(st, Head(s)[1], Head(s)[2], force), Tail(s), force)
RECURSIVE DelAll(_, _)
DelAll(st, s) == IF s = <<>> THEN st ELSE DelAll(DelRoute(st, Head(s)), Tail(s))

Perms(S) == {s \in [1..Cardinality(S) -> S] : \A i, j \in DOMAIN s : i # j => s[i] # s[j]}
CachedKeys(c, fams) == {k \in Keys : c[k] # None /\ FamOf(k) \in fams}

\* ---------------------------------------------------------------------------------------
\* operator / API actions
Announce(k, a) ==
    /\ act' = [name |-> "Announce", k |-> k, a |-> a]
    /\ SetSt(AddRoute(St, k, a, FALSE))
    /\ UNCHANGED <<refreshFams, gen, peer, up, inclWd, eorDue, eorSent, wdog>>

Withdraw(k) ==
    /\ act' = [name |-> "Withdraw", k |-> k]
    /\ SetSt(DelRoute(St, k))
    /\ UNCHANGED <<refreshFams, gen, peer, up, inclWd, eorDue, eorSent, wdog>>

\* resend(): API "flush adj-rib out" (enhanced = FALSE) and a received ROUTE-REFRESH.
\* The order in which cached routes are queued follows python set / dict iteration: left open.
Resend(enhanced, fams) ==
    /\ act' = [name |-> "Resend", enhanced |-> enhanced, fams |-> fams]
    /\ refreshFams' = IF enhanced THEN refreshFams \cup fams ELSE refreshFams
    /\ \E order \in Perms(CachedKeys(cache, fams)) :
           refresh' = refresh \o [i \in DOMAIN order |-> <<order[i], cache[order[i]]>>]
    /\ UNCHANGED <<cache, newNlri, groups, pendWd, gen, peer, up, inclWd, eorDue, eorSent, wdog>>

\* withdraw(): "clear adj-rib out" -- every cached route is withdrawn
WithdrawAll ==
    /\ act' = [name |-> "WithdrawAll"]
    /\ \E order \in Perms(CachedKeys(cache, Fams)) :
           SetSt(DelAll(St, [i \in DOMAIN order |-> order[i]]))
    /\ UNCHANGED <<refreshFams, gen, peer, up, inclWd, eorDue, eorSent, wdog>>

\* ---- watchdog ---------------------------------------------------------------------------
\* add_to_rib_watchdog(route with `watchdog name` [and `withdraw`])
WatchdogAdd(w, k, a, withdrawn) ==
    /\ act' = [name |-> "WatchdogAdd", w |-> w, k |-> k, a |-> a, withdrawn |-> withdrawn]
    /\ IF withdrawn
       THEN /\ wdog' = [wdog EXCEPT ![w].minus = {e \in @ : e[1] # k} \cup {<<k, a>>}]
            /\ UNCHANGED <<cache, newNlri, groups, pendWd, refresh>>
       ELSE /\ wdog' = [wdog EXCEPT ![w].plus = {e \in @ : e[1] # k} \cup {<<k, a>>}]
            /\ SetSt(AddRoute(St, k, a, FALSE))
    /\ UNCHANGED <<refreshFams, gen, peer, up, inclWd, eorDue, eorSent>>

SeqOfSet(S) == CHOOSE s \in Perms(S) : TRUE   \* order among different keys is not observable per key

WatchdogAnnounce(w) ==
    /\ act' = [name |-> "WatchdogAnnounce", w |-> w]
    /\ \E order \in Perms(wdog[w].minus) :
          SetSt(AddAll(St, order, FALSE))
    /\ wdog' = [wdog EXCEPT ![w].plus = {e \in @ : ~\E m \in wdog[w].minus : m[1] = e[1]} \cup wdog[w].minus,
                            ![w].minus = {}]
    /\ UNCHANGED <<refreshFams, gen, peer, up, inclWd, eorDue, eorSent>>

WatchdogWithdraw(w) ==
    /\ act' = [name |-> "WatchdogWithdraw", w |-> w]
    /\ \E order \in Perms(wdog[w].plus) :
          SetSt(DelAll(St, [i \in DOMAIN order |-> order[i][1]]))
    /\ wdog' = [wdog EXCEPT ![w].minus = {e \in @ : ~\E m \in wdog[w].plus : m[1] = e[1]} \cup wdog[w].plus,
                            ![w].plus = {}]
    /\ UNCHANGED <<refreshFams, gen, peer, up, inclWd, eorDue, eorSent>>

\* ---------------------------------------------------------------------------------------
\* the flush generator: OutgoingRIB.updates() as consumed by Protocol.new_update_generator
\* updates() walks the attribute groups in insertion order.  Since the fix, an entry that is no longer the current
\* queued announce of its route is skipped when the route was withdrawn since (newNlri = None) or when the current
\* announce has already been yielded (`sent`); a superseded entry that still precedes its replacement is yielded.
RECURSIVE LiveEnt(_, _, _)
LiveEnt(ent, i, sent) ==          \* -> [ent |-> filtered entries, sent |-> updated set]
    IF i > Len(ent) THEN [ent |-> <<>>, sent |-> sent]
    ELSE LET k == ent[i][1]
             cur == newNlri[k] = ent[i][2]
             keep == EmitSuperseded \/ cur \/ (newNlri[k] # None /\ k \notin sent)
             rest == LiveEnt(ent, i + 1, IF cur THEN sent \cup {k} ELSE sent)
         IN [ent |-> (IF keep THEN <<ent[i]>> ELSE <<>>) \o rest.ent, sent |-> rest.sent]

MsgsOf(fam, ent) ==
    IF ent = <<>> THEN <<>>
    ELSE IF Grouped(fam) THEN <<[kind |-> "ann", fam |-> fam, ent |-> ent]>>
    ELSE [i \in 1..Len(ent) |-> [kind |-> "ann", fam |-> fam, ent |-> <<ent[i]>>]]

RECURSIVE FlatFams(_, _, _)
FlatFams(fs, j, sent) ==          \* -> [q, sent]
    IF j > Len(fs) THEN [q |-> <<>>, sent |-> sent]
    ELSE LET le == LiveEnt(fs[j].ent, 1, sent)
             rest == FlatFams(fs, j + 1, le.sent)
         IN [q |-> MsgsOf(fs[j].fam, le.ent) \o rest.q, sent |-> rest.sent]
RECURSIVE FlatGroups(_, _, _)
FlatGroups(gs, i, sent) ==
    IF i > Len(gs) THEN <<>>
    ELSE LET ff == FlatFams(gs[i].fams, 1, sent) IN ff.q \o FlatGroups(gs, i + 1, ff.sent)
RECURSIVE FlatWd(_, _)
FlatWd(pw, j) ==
    IF j > Len(pw) THEN <<>>
    ELSE [i \in 1..Len(pw[j].keys) |-> [kind |-> "wd", fam |-> pw[j].fam, ent |-> <<<<pw[j].keys[i], None>>>>]]
         \o FlatWd(pw, j + 1)

\* what updates() yields, in its order: RR start markers, refreshed routes, RR end markers,
\* withdraws, announces by attribute set then family.  Marker order follows set iteration.
MsgsWith(markerOrder) ==
       [i \in DOMAIN markerOrder |-> [kind |-> "rrs", fam |-> markerOrder[i], ent |-> <<>>]]
    \o [i \in 1..Len(refresh) |-> [kind |-> "ann", fam |-> FamOf(refresh[i][1]), ent |-> <<refresh[i]>>]]
    \o [i \in DOMAIN markerOrder |-> [kind |-> "rre", fam |-> markerOrder[i], ent |-> <<>>]]
    \o FlatWd(pendWd, 1)
    \o FlatGroups(groups, 1, {})

EmptyQueues ==
    /\ newNlri' = [k \in Keys |-> None] /\ groups' = <<>> /\ pendWd' = <<>>
    /\ refresh' = <<>> /\ refreshFams' = {}

StartFlush ==                                   \* Peer._send_route_updates creates the generator; the snapshot is taken at once
    /\ up /\ ~gen.live /\ Pending
    /\ act' = [name |-> "StartFlush"]
    /\ \E mo \in Perms(refreshFams) : gen' = [live |-> TRUE, q |-> MsgsWith(mo)]
    /\ EmptyQueues
    /\ UNCHANGED <<cache, peer, up, inclWd, eorDue, eorSent, wdog>>

\* effect on the peer table of one yielded item, given include_withdraw
Touches(m, k) == \E i \in 1..Len(m.ent) : m.ent[i][1] = k
ValOf(m, k)   == (CHOOSE e \in {m.ent[i] : i \in 1..Len(m.ent)} : e[1] = k)[2]
Apply(tbl, m, iw) ==
    [k \in Keys |->
        IF ~Touches(m, k) THEN tbl[k]
        ELSE IF m.kind = "ann" THEN ValOf(m, k)
        ELSE IF m.kind = "wd" /\ iw THEN None
        ELSE tbl[k]]

SendOne ==                                      \* one yielded item is encoded and written
    /\ up /\ gen.live /\ gen.q # <<>>
    /\ act' = [name |-> "SendOne", msg |-> Head(gen.q), iw |-> inclWd]
    /\ peer' = Apply(peer, Head(gen.q), inclWd)
    /\ gen' = [gen EXCEPT !.q = Tail(@)]
    /\ UNCHANGED <<cache, newNlri, groups, pendWd, refresh, refreshFams, up, inclWd, eorDue, eorSent, wdog>>

FlushDone ==                                    \* StopAsyncIteration: include_withdraw becomes True
    /\ up /\ gen.live /\ gen.q = <<>>
    /\ act' = [name |-> "FlushDone"]
    /\ gen' = [live |-> FALSE, q |-> <<>>]
    /\ inclWd' = TRUE
    /\ UNCHANGED <<cache, newNlri, groups, pendWd, refresh, refreshFams, peer, up, eorDue, eorSent, wdog>>

SendEOR ==                                      \* Peer._send_eor_messages: only with no live generator
    /\ up /\ ~gen.live /\ eorDue
    /\ act' = [name |-> "SendEOR"]
    /\ eorDue' = FALSE
    /\ eorSent' = Fams
    /\ UNCHANGED <<cache, newNlri, groups, pendWd, refresh, refreshFams, gen, peer, up, inclWd, wdog>>

\* ---- session loss and restart (C11) -----------------------------------------------------
SessionDown ==                                  \* Peer._reset -> neighbor.reset_rib -> OutgoingRIB.reset(); enabled anywhere
    /\ up
    /\ act' = [name |-> "SessionDown"]
    /\ up' = FALSE
    /\ gen' = [live |-> FALSE, q |-> <<>>]      \* the generator object is dropped with the session
    /\ EmptyQueues                               \* reset() drains every queue
    /\ peer' = [k \in Keys |-> None]             \* the peer flushes what it learnt on the lost session
    /\ eorSent' = {} /\ eorDue' = FALSE
    /\ UNCHANGED <<cache, inclWd, wdog>>

SessionUp ==                                    \* Peer._main: replace_restart(previous, current) re-queues every cached route
    /\ ~up
    /\ act' = [name |-> "SessionUp"]
    /\ up' = TRUE
    /\ inclWd' = FALSE
    /\ eorDue' = TRUE
    /\ eorSent' = {}
    /\ \E order \in Perms(CachedKeys(cache, Fams)) :
          SetSt(AddAll(St, [i \in DOMAIN order |-> <<order[i], cache[order[i]]>>], TRUE))
    /\ UNCHANGED <<refreshFams, gen, peer, wdog>>

Init ==
    /\ cache = [k \in Keys |-> None] /\ newNlri = [k \in Keys |-> None] /\ peer = [k \in Keys |-> None]
    /\ groups = <<>> /\ pendWd = <<>> /\ refresh = <<>> /\ refreshFams = {}
    /\ gen = [live |-> FALSE, q |-> <<>>]
    /\ up = FALSE /\ inclWd = FALSE /\ eorDue = FALSE /\ eorSent = {}
    /\ wdog = [w \in WdNames |-> [plus |-> {}, minus |-> {}]]
    /\ act = [name |-> "Init"]

Next ==
    \/ \E k \in Keys, a \in Attrs : Announce(k, a)
    \/ \E k \in Keys : Withdraw(k)
    \/ \E e \in BOOLEAN, f \in (SUBSET Fams) \ {{}} : Resend(e, f)
    \/ WithdrawAll
    \/ \E w \in WdNames, k \in Keys, a \in Attrs, b \in BOOLEAN : WatchdogAdd(w, k, a, b)
    \/ \E w \in WdNames : WatchdogAnnounce(w) \/ WatchdogWithdraw(w)
    \/ StartFlush \/ SendOne \/ FlushDone \/ SendEOR
    \/ SessionDown \/ SessionUp

Spec == Init /\ [][Next]_vars

\* ---------------------------------------------------------------------------------------
\* Properties

KeyPending(k) ==
    \/ newNlri[k] # None
    \/ \E j \in 1..Len(pendWd) : \E i \in 1..Len(pendWd[j].keys) : pendWd[j].keys[i] = k
    \/ \E i \in 1..Len(refresh) : refresh[i][1] = k
    \/ \E i \in 1..Len(gen.q) : Touches(gen.q[i], k)

\* C04: once nothing is queued or in flight for a key, the peer holds exactly what ExaBGP reports.
Converged == up => \A k \in Keys : ~KeyPending(k) => peer[k] = cache[k]

\* C04: no withdrawn route is resurrected: an announce on the wire for k while cache[k] = None is only legal when a
\* withdraw for k is still queued behind it.
NoResurrection ==
    [][ (act'.name = "SendOne" /\ act'.msg.kind = "ann") =>
          \A k \in Keys : (Touches(act'.msg, k) /\ cache[k] = None) =>
              (\/ \E j \in 1..Len(pendWd) : \E i \in 1..Len(pendWd[j].keys) : pendWd[j].keys[i] = k
               \/ \E i \in 1..Len(gen'.q) : gen'.q[i].kind = "wd" /\ Touches(gen'.q[i], k)) ]_vars

\* C11: the End-of-RIB of a session is only sent when the peer table equals the Adj-RIB-Out for every key with nothing
\* queued, and every key cached at establishment has been (re)sent.
EorAfterBatch == (eorSent # {}) => eorSent = Fams
Resync ==
    [][ act'.name = "SendEOR" => \A k \in Keys : ~KeyPending(k) => peer[k] = cache[k] ]_vars

TypeOK ==
    /\ cache \in [Keys -> AttrOrNone] /\ newNlri \in [Keys -> AttrOrNone] /\ peer \in [Keys -> AttrOrNone]
    /\ up \in BOOLEAN /\ inclWd \in BOOLEAN /\ eorDue \in BOOLEAN /\ eorSent \subseteq Fams
    /\ gen.live \in BOOLEAN
=============================================================================
