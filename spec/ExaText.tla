------------------------------ MODULE ExaText ------------------------------
(***************************************************************************)
(* C18: route text is accepted if and only if it can be sent.               *)
(*                                                                         *)
(* A `Field` is one numeric position of the route / flow / vpls grammar.     *)
(* The wire format gives it a capacity (Cap: 1, 2, 4 bytes, 20 or 6 bits, or  *)
(* a prefix length bound); the table below is written from the RFCs (4271,    *)
(* 1997, 8092, 4360, 5668, 3107, 4364, 7911, 8669, 8955/8956, 4761), never    *)
(* from ExaBGP.  A row = (field, value class, where the text is offered).     *)
(*   Accept(row)            the value fits the wire format                   *)
(*   Frag(row, session)     bytes that must appear in the UPDATE sent on     *)
(*                          that kind of session when the value was accepted *)
(* Values of 32 bits do not fit TLC integers: "max" is a byte string.         *)
(***************************************************************************)
EXTENDS Naturals, Sequences, FiniteSets, TLC

U16(n) == <<n \div 256, n % 256>>
U24(n) == <<n \div 65536, (n \div 256) % 256, n % 256>>
U32s(n) == <<0, n \div 65536, (n \div 256) % 256, n % 256>>      \* a small number on four bytes
Ones(k) == [i \in 1..k |-> 255]

\* capacity kinds: b1 b2 b4 (bytes), bits20, bits6, len32, len128 (prefix lengths)
Cap == [
  med |-> "b4", pref |-> "b4", aspath |-> "b4", commhi |-> "b2", commlo |-> "b2", commnum |-> "b4",
  large1 |-> "b4", large2 |-> "b4", large3 |-> "b4",
  rt2local |-> "b4", rt4local |-> "b2", rtiplocal |-> "b2", rt4admin |-> "b4",
  label |-> "bits20", label2 |-> "bits20", label1 |-> "bits20", rd0local |-> "b4", rd1local |-> "b2", rd2local |-> "b2", rdadmin |-> "b4",
  pathid |-> "b4", aggras |-> "b4", attrcode |-> "b1", attrflag |-> "b1", sidindex |-> "b4",
  mask4 |-> "len32", mask6 |-> "len128",
  fproto |-> "b1", fport |-> "b2", fdport |-> "b2", fitype |-> "b1", ficode |-> "b1", fdscp |-> "bits6", ftclass |-> "b1", fplen |-> "b2", flabel |-> "bits20",
  fmask |-> "len32", fmark |-> "bits6", fredirlocal |-> "b4",
  vep |-> "b2", vbase |-> "bits20", voff |-> "b2", vsize |-> "b2",
  \* one octet of a dotted IPv4 address, wherever the grammar takes one
  nhoct |-> "b1", pfxoct |-> "b1", origoct |-> "b1", clusteroct |-> "b1", aggroct |-> "b1", rd1oct |-> "b1", rtipoct |-> "b1", pathidoct |-> "b1",
  vnhoct |-> "b1", fdstoct |-> "b1",
  \* shapes: a lone number where the grammar wants <x>:<y> or an address.  Whether such a text means anything is the parser's
  \* business (Shape rows demand neither acceptance nor refusal) -- but it is answered, never an unhandled exception, and what
  \* is accepted can be encoded
  rdplain |-> "b4", vrdplain |-> "b4", frdplain |-> "b4", aggrplain |-> "b4", rtplain |-> "b4", largetwo |-> "b4", nhnum |-> "b4",
  \* lengths: bytes of a generic attribute's value, number of communities.  The six value classes are here the rungs of the
  \* length ladder (RFC 4271 4.3: one length byte up to 255, Extended Length up to 65535, nothing beyond):
  \*   low, max (last one-byte length), over (first Extended Length)   -> accepted and carried
  \*   neg  (4090 bytes / 1100 communities: fits an extended-message session only) and
  \*   junk (65535 bytes / 16383 communities: a legal attribute no message has room for) -> whether to accept them at parse
  \*        time, when the session is not known, is ExaBGP's choice (Free); what is accepted must still never raise
  \*   huge (65536 bytes / 16384 communities: no attribute can hold it)  -> refused
  attrlen |-> "alen", commcount |-> "ccount",
  \* an extended community written in hexadecimal: the number of bytes.  RFC 4360: eight, no more, no fewer --
  \* low = max = 8 (accepted, carried), over = 9, huge = 70, neg = 7, junk = 1 (refused, not truncated or padded)
  echexlen |-> "eclen",
  sidplain |-> "b4", sidsrv6plain |-> "b4" ]
Lengths == {"attrlen", "commcount"}
Shape == {"rdplain", "vrdplain", "frdplain", "aggrplain", "rtplain", "largetwo", "nhnum", "sidplain", "sidsrv6plain"}
Free(r) == r.field \in Shape \/ (r.field \in Lengths /\ r.val \in {"neg", "junk"})
Fields == DOMAIN Cap
\* the in-range value used as "low" for each field (small, so that TLC can do arithmetic on it)
Low == [f \in Fields |->
        CASE f = "attrcode" -> 200 [] f = "attrflag" -> 192 [] f \in {"mask4", "fmask"} -> 24 [] f = "mask6" -> 32 [] f \in {"fdscp", "fmark"} -> 10
          [] f \in {"fproto", "fitype", "ficode", "ftclass"} -> 6 [] f = "commcount" -> 10 [] OTHER -> 77]
MaxInt(f) == CASE Cap[f] = "b1" -> 255 [] Cap[f] = "b2" -> 65535 [] Cap[f] = "bits20" -> 1048575 [] Cap[f] = "bits6" -> 63
               [] Cap[f] = "len32" -> 32 [] Cap[f] = "len128" -> 128 [] OTHER -> 0
Vals == {"low", "max", "over", "huge", "neg", "junk"}       \* huge = 2^64 + 5, neg = -1, junk = "x7"
Srcs == {"api", "file"}
Sessions == {"e4", "e2", "i4"}                              \* eBGP 4-byte AS + ADD-PATH, eBGP with a 2-byte peer, iBGP
\* attrflag: 0xff sets the extended-length bit whose encoding is a separate question: only low and beyond-capacity values
\* the rungs which take more than 64 KB of text are offered in a file only
\* (the two highest rungs of commcount are left out: the parser needs two minutes for 16384 communities -- the same limit is
\* reached by attrlen in a tenth of a second)
RowOK(r) == /\ (r.field = "attrflag" => r.val # "max")
            /\ (r.field \in Lengths /\ r.val \in {"junk", "huge"} => r.src = "file" /\ r.field # "commcount")
Rows == {r \in [field : Fields, val : Vals, src : Srcs] : RowOK(r)}

Accept(r) == r.val \in {"low", "max"} \/ (r.field \in Lengths /\ r.val = "over")

\* the value on k bytes (k = 1, 2, 3 as integers; 4 bytes as a string of bytes)
V1(f, v) == <<IF v = "max" THEN MaxInt(f) ELSE Low[f]>>
V2(f, v) == IF v = "max" THEN Ones(2) ELSE U16(Low[f])
V4(f, v) == IF v = "max" THEN Ones(4) ELSE U32s(Low[f])
Lbl(n, bos) == U24(n * 16 + bos)
L20(f, v) == IF v = "max" THEN 1048575 ELSE Low[f]

Asn4(s) == s # "e2"
RD0 == <<0, 0, 253, 232, 0, 0, 0, 1>>        \* 65000:1
Frag(r, s) ==
  LET f == r.field  v == r.val IN
  CASE f = "med"      -> <<128, 4, 4>> \o V4(f, v)
    [] f = "pref"     -> IF s = "i4" THEN <<64, 5, 4>> \o V4(f, v) ELSE <<>>
    [] f = "aspath"   -> IF Asn4(s) \/ v = "max" THEN V4(f, v) ELSE V2(f, v)             \* AS_PATH, or AS4_PATH for the 2-byte peer
    [] f = "commhi"   -> <<192, 8, 4>> \o V2(f, v) \o <<0, 1>>
    [] f = "commlo"   -> <<192, 8, 4, 0, 1>> \o V2(f, v)
    [] f = "commnum"  -> <<192, 8, 4>> \o V4(f, v)
    [] f = "large1"   -> <<192, 32, 12>> \o V4(f, v) \o <<0, 0, 0, 2, 0, 0, 0, 3>>
    [] f = "large2"   -> <<192, 32, 12, 0, 0, 0, 1>> \o V4(f, v) \o <<0, 0, 0, 3>>
    [] f = "large3"   -> <<192, 32, 12, 0, 0, 0, 1, 0, 0, 0, 2>> \o V4(f, v)
    [] f = "rt2local" -> <<192, 16, 8, 0, 2, 253, 232>> \o V4(f, v)                        \* RFC 4360 two-octet AS specific
    [] f = "rt4local" -> <<192, 16, 8, 2, 2, 250, 86, 234, 0>> \o V2(f, v)                  \* RFC 5668 four-octet AS specific: type 0x02
    [] f = "rt4admin" -> IF v = "max" THEN <<192, 16, 8, 2, 2>> \o Ones(4) \o <<0, 1>> ELSE <<192, 16, 8, 0, 2>> \o V2(f, v) \o <<0, 0, 0, 1>>
    [] f = "rtiplocal" -> <<192, 16, 8, 1, 2, 1, 2, 3, 4>> \o V2(f, v)
    [] f = "label"    -> Lbl(L20(f, v), 1)
    [] f = "label2"   -> Lbl(100, 0) \o Lbl(L20(f, v), 1)
    [] f = "label1"   -> Lbl(L20(f, v), 0) \o Lbl(100, 1)                                  \* the varied label is not the last of the stack
    [] f = "rd0local" -> <<0, 0, 253, 232>> \o V4(f, v)
    [] f = "rdadmin"  -> IF v = "max" THEN <<0, 2>> \o Ones(4) \o <<0, 1>> ELSE <<0, 0>> \o V2(f, v) \o <<0, 0, 0, 1>>     \* type 2 when the AS needs four bytes
    [] f = "rd1local" -> <<0, 1, 1, 2, 3, 4>> \o V2(f, v)
    [] f = "rd2local" -> <<0, 2, 250, 86, 234, 0>> \o V2(f, v)
    [] f = "pathid"   -> IF s = "e4" THEN V4(f, v) \o <<24, 10, 0, 0>> ELSE <<>>
    [] f = "aggras"   -> IF Asn4(s) THEN <<192, 7, 8>> \o V4(f, v) \o <<1, 2, 3, 4>>
                         ELSE IF v = "max" THEN <<192, 18, 8>> \o Ones(4) \o <<1, 2, 3, 4>> ELSE <<192, 7, 6>> \o V2(f, v) \o <<1, 2, 3, 4>>
    [] f = "attrcode" -> <<192>> \o V1(f, v) \o <<2, 1, 2>>
    [] f = "attrflag" -> V1(f, v) \o <<250, 2, 1, 2>>
    [] f = "sidindex" -> <<192, 40, 10, 1, 0, 7, 0, 0, 0>> \o V4(f, v)
    [] f = "mask4"    -> IF v = "max" THEN <<32, 10, 0, 0, 0>> ELSE <<24, 10, 0, 0>>
    [] f = "mask6"    -> IF v = "max" THEN <<128, 32, 1, 13, 184>> \o [i \in 1..12 |-> 0] ELSE <<32, 32, 1, 13, 184>>
    [] f = "fproto"   -> <<3, 129>> \o V1(f, v)
    [] f = "fitype"   -> <<7, 129>> \o V1(f, v)
    [] f = "ficode"   -> <<8, 129>> \o V1(f, v)
    [] f = "fdscp"    -> <<11, 129>> \o V1(f, v)
    [] f = "ftclass"  -> <<11, 129>> \o V1(f, v)
    [] f = "fport"    -> IF v = "max" THEN <<4, 145, 255, 255>> ELSE <<4, 129, Low[f]>>
    [] f = "fdport"   -> IF v = "max" THEN <<5, 145, 255, 255>> ELSE <<5, 129, Low[f]>>
    [] f = "fplen"    -> IF v = "max" THEN <<10, 145, 255, 255>> ELSE <<10, 129, Low[f]>>
    [] f = "flabel"   -> IF v = "max" THEN <<13, 161, 0, 15, 255, 255>> ELSE <<13, 129, Low[f]>>
    [] f = "fmask"    -> IF v = "max" THEN <<2, 32, 10, 0, 0, 0>> ELSE <<2, 24, 10, 0, 0>>
    [] f = "fmark"    -> <<128, 9, 0, 0, 0, 0, 0>> \o V1(f, v)
    [] f = "fredirlocal" -> <<128, 8, 255, 220>> \o V4(f, v)
    \* RFC 4761 3.2.2: length 17, RD, VE ID, VE block offset, VE block size, label base (20 bits, bottom of stack)
    [] f = "vep"      -> <<0, 17>> \o RD0 \o V2(f, v) \o U16(1) \o U16(8) \o Lbl(100, 1)
    [] f = "voff"     -> <<0, 17>> \o RD0 \o U16(5) \o V2(f, v) \o U16(8) \o Lbl(100, 1)
    [] f = "vsize"    -> <<0, 17>> \o RD0 \o U16(5) \o U16(1) \o V2(f, v) \o Lbl(100, 1)
    [] f = "vbase"    -> <<0, 17>> \o RD0 \o U16(5) \o U16(1) \o U16(1) \o Lbl(L20(f, v), 1)      \* a block of one label
    [] f = "attrlen"  -> IF v = "over" THEN <<208, 200, 1, 0, 171, 171>> ELSE <<192, 200, IF v = "max" THEN 255 ELSE 77, 171, 171>>
    [] f = "commcount" -> IF v = "over" THEN <<208, 8, 1, 0, 0, 1, 0, 0, 0, 1, 0, 1>>                    \* 64 communities 1:0 1:1 ...: 256 bytes
                          ELSE <<192, 8, IF v = "max" THEN 252 ELSE 40, 0, 1, 0, 0, 0, 1, 0, 1>>
    [] f = "echexlen" -> <<192, 16, 8, 0, 2, 253, 232, 0, 0, 0, 1>>
    [] f = "nhoct"    -> <<64, 3, 4, 1, 2, 3>> \o V1(f, v)
    [] f = "pfxoct"   -> <<24, 10, 0>> \o V1(f, v)
    [] f = "origoct"  -> IF s = "i4" THEN <<128, 9, 4, 10, 0, 0>> \o V1(f, v) ELSE <<>>
    [] f = "clusteroct" -> IF s = "i4" THEN <<128, 10, 4, 10, 0, 0>> \o V1(f, v) ELSE <<>>
    [] f = "aggroct"  -> IF Asn4(s) THEN <<192, 7, 8, 0, 0, 253, 232, 1, 2, 3>> \o V1(f, v) ELSE <<192, 7, 6, 253, 232, 1, 2, 3>> \o V1(f, v)
    [] f = "rd1oct"   -> <<0, 1, 1, 2, 3>> \o V1(f, v) \o <<0, 5>>
    [] f = "rtipoct"  -> <<192, 16, 8, 1, 2, 1, 2, 3>> \o V1(f, v) \o <<0, 5>>
    [] f = "pathidoct" -> IF s = "e4" THEN <<1, 2, 3>> \o V1(f, v) \o <<24, 10, 0, 0>> ELSE <<>>
    [] f = "vnhoct"   -> <<0, 25, 65, 4, 1, 2, 3>> \o V1(f, v)                               \* MP_REACH_NLRI: AFI 25, SAFI 65, next hop of 4 bytes
    [] f = "fdstoct"  -> <<1, 24, 10, 0>> \o V1(f, v)                                        \* RFC 8955 type 1, /24
    [] OTHER -> <<>>

Contains(w, e) == e = <<>> \/ \E i \in 1..(Len(w) - Len(e) + 1) : SubSeq(w, i, i + Len(e) - 1) = e
=============================================================================
