------------------------------- MODULE ExaApi -------------------------------
(***************************************************************************)
(* C14: the API command path of one helper process:                          *)
(*   bytes written by the helper -> pipe -> Processes._async_reader_callback  *)
(*   (line reassembly) -> command queue -> one command per reactor cycle ->   *)
(*   dispatch (selector -> peers) -> command callback -> reply.               *)
(*                                                                         *)
(* A command line is three abstract characters: first half, second half,      *)
(* newline; the pipe delivers any number of characters per read.  The         *)
(* meaning of a command (Targets, Reply) is written from the documented API:  *)
(* a selector is a set of definitions (address or *, plus key/value terms);   *)
(* a neighbour matches a definition when EVERY term matches, and a command     *)
(* when SOME definition does; no selector = every neighbour.                  *)
(***************************************************************************)
EXTENDS Naturals, Sequences, FiniteSets, TLC

CONSTANTS MaxCmds,       \* longest script (sequence of command ids the helper writes) explored
          MaxSteps

\* ---- neighbours and commands (concretised by harness/apidrv.py and harness/c14.py) ----------
Neighbors == {"n1", "n2", "n3"}
Attr == [n1 |-> [addr |-> "a11", as |-> 65001, rid |-> "r1"],
         n2 |-> [addr |-> "a12", as |-> 65002, rid |-> "r1"],
         n3 |-> [addr |-> "a110", as |-> 65001, rid |-> "r2"]]      \* a110's text has a11's as a prefix
Def(addr, terms) == [addr |-> addr, terms |-> terms]
\* id |-> [verb, route, ok (parses and is valid), sel (set of definitions, {} = no selector)]
C(verb, route, ok, sel) == [verb |-> verb, route |-> route, ok |-> ok, sel |-> sel]
Cmds == [
    all     |-> C("ann", "p1", TRUE, {Def("*", {})}),
    one     |-> C("ann", "p2", TRUE, {Def("a11", {})}),
    oneas   |-> C("ann", "p3", TRUE, {Def("a11", {<<"as", 65001>>})}),
    none    |-> C("ann", "p4", TRUE, {Def("a11", {<<"as", 65002>>})}),
    none2   |-> C("ann", "p4", TRUE, {Def("a12", {<<"rid", "r2">>})}),
    two     |-> C("ann", "p5", TRUE, {Def("a11", {}), Def("a12", {<<"as", 65002>>})}),
    third   |-> C("ann", "p6", TRUE, {Def("a110", {<<"rid", "r2">>})}),
    \* the wildcard address with a term: every neighbour of AS 65002, and only those
    staras  |-> C("ann", "p11", TRUE, {Def("*", {<<"as", 65002>>})}),
    wdall   |-> C("wd", "p1", TRUE, {Def("*", {})}),
    wdone   |-> C("wd", "p2", TRUE, {Def("a11", {})}),
    bogus   |-> C("unknown", "none", FALSE, {}),
    badrt   |-> C("ann", "p7", FALSE, {Def("*", {})}),
    badval  |-> C("ann", "p8", FALSE, {Def("*", {})}),
    \* one command carrying two routes, the first valid (p9), the second not (no next hop): an error, and p9 in no RIB
    halfbad |-> C("ann", "p9", FALSE, {Def("*", {})}) ]
CmdIds == DOMAIN Cmds

Matches(n, d) == (d.addr = "*" \/ d.addr = Attr[n].addr) /\ \A t \in d.terms : Attr[n][t[1]] = t[2]
Targets(c) == IF c.sel = {} THEN Neighbors ELSE {n \in Neighbors : \E d \in c.sel : Matches(n, d)}
Succeeds(c) == c.ok /\ Targets(c) # {}
Reply(c) == IF Succeeds(c) THEN "done" ELSE "error"
Effect(ribs, c) == IF ~Succeeds(c) THEN ribs
                   ELSE [n \in Neighbors |-> IF n \notin Targets(c) THEN ribs[n]
                                             ELSE IF c.verb = "ann" THEN ribs[n] \cup {c.route} ELSE ribs[n] \ {c.route}]

\* ---- the pipe, the reader, the queue ------------------------------------------------------------
VARIABLES Script,    \* the sequence of command ids the helper writes (chosen initially, then constant)
          pos,       \* characters the helper's writes have put in the pipe and ExaBGP has read
          buf,       \* partial line kept by the reader
          queue,     \* complete commands waiting (positions in Script)
          executed,  \* commands dispatched, in order
          replies,   \* terminal replies written back
          ribs,      \* neighbour -> set of routes announced through the API
          hist       \* schedule for the harness: "r1".."r9" = read n characters, "c" = one reactor cycle
vars == <<Script, pos, buf, queue, executed, replies, ribs, hist>>

Chars(i) == <<<<i, "a">>, <<i, "b">>, <<i, "nl">>>>           \* i = position in Script
RECURSIVE StreamFrom(_)
StreamFrom(i) == IF i > Len(Script) THEN <<>> ELSE Chars(i) \o StreamFrom(i + 1)
Stream == StreamFrom(1)


Init == Script \in UNION {[1..n -> CmdIds] : n \in 1..MaxCmds} /\ pos = 0 /\ buf = <<>> /\ queue = <<>> /\ executed = <<>> /\ replies = <<>> /\ ribs = [n \in Neighbors |-> {}] /\ hist = <<>>

\* the helper writes n more characters and the reader callback takes them (lines completed are queued)
RECURSIVE Split(_, _, _)
Split(b, rest, q) ==     \* -> [buf, queue]
    IF rest = <<>> THEN [buf |-> b, queue |-> q]
    ELSE IF Head(rest)[2] = "nl" THEN Split(<<>>, Tail(rest), Append(q, Head(rest)[1]))
    ELSE Split(Append(b, Head(rest)), Tail(rest), q)
Read(n) ==
    /\ pos + n <= Len(Stream) /\ Len(hist) < MaxSteps
    /\ LET s == Split(buf, SubSeq(Stream, pos + 1, pos + n), queue) IN buf' = s.buf /\ queue' = s.queue
    /\ pos' = pos + n
    /\ hist' = Append(hist, <<"r", n>>)
    /\ UNCHANGED <<Script, executed, replies, ribs>>

\* one reactor cycle: at most one queued command is dispatched, its callback runs, the reply is flushed
Cycle ==
    /\ Len(hist) < MaxSteps
    /\ hist' = Append(hist, <<"c", 0>>)
    /\ IF queue = <<>> THEN UNCHANGED <<queue, executed, replies, ribs>>
       ELSE LET c == Cmds[Script[Head(queue)]] IN
            /\ queue' = Tail(queue)
            /\ executed' = Append(executed, Head(queue))
            /\ replies' = Append(replies, Reply(c))
            /\ ribs' = Effect(ribs, c)
    /\ UNCHANGED <<Script, pos, buf>>

Next == (\E n \in 1..9 : Read(n)) \/ Cycle
Spec == Init /\ [][Next]_vars

\* ---- properties -------------------------------------------------------------------------------------
SameOrder == \A i \in 1..Len(executed) : executed[i] = i                       \* the same commands in the same order
OneTerminalReplyEach == Len(replies) = Len(executed) /\ \A i \in 1..Len(replies) : replies[i] = Reply(Cmds[Script[i]])
NothingInvented == Len(executed) + Len(queue) <= Len(Script) /\ (pos = Len(Stream) => buf = <<>>)
RECURSIVE Fold(_, _)
Fold(i, r) == IF i = 0 THEN r ELSE Effect(Fold(i - 1, r), Cmds[Script[i]])
RibsAreTheFold == ribs = Fold(Len(executed), [n \in Neighbors |-> {}])          \* errors change nothing, selectors are exact
=============================================================================
