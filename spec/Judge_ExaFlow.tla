---------------------------- MODULE Judge_ExaFlow ----------------------------
(* Verdicts for C16: [id, u, nlri: bytes ExaBGP packed for the rule text, ecs: extended communities it attached (8 bytes each),
   redec: what ExaBGP's decoder made of EncFlow(u) re-packed (or <<>> when refused), refusedOk: it refused every malformed variant] *)
EXTENDS ExaFlow, Json, IOUtils
Tr == ndJsonDeserialize(IOEnv.TRACE_FILE)
Chk(name, ok) == IF ok THEN {} ELSE {name}
SetOf(s) == {s[i] : i \in 1..Len(s)}
JU(j) == [v6 |-> j.v6, rd |-> j.rd, dst |-> j.dst, src |-> j.src, proto |-> j.proto, port |-> j.port, dport |-> j.dport, sport |-> j.sport, itype |-> j.itype,
          icode |-> j.icode, flags |-> j.flags, plen |-> j.plen, dscp |-> j.dscp, frag |-> j.frag, label |-> j.label, pad |-> j.pad, action |-> j.action]
Viol(r, j) ==
    LET want == EncFlow(r)
        n == Len(Body(r))
        hl == IF n < 240 THEN 1 ELSE 2
    IN IF j.error # "" THEN {"C16-rule-text-refused-or-raised"}
       ELSE (IF j.nlri = want THEN {}
             \* the length field is wrong when it does not describe, in the RFC form, the bytes that follow it
             ELSE IF \E k \in {1, 2} : Len(j.nlri) >= k /\ Take(j.nlri, k) = EncLen(Len(j.nlri) - k) THEN {"C16-nlri-components-differ-from-rfc8955"}
             ELSE {"C16-nlri-length-field-differs-from-rfc8955"})
            \cup Chk("C16-rule-leaves-under-the-wrong-address-family", j.fam = <<IF r.v6 THEN 2 ELSE 1, IF r.rd THEN 134 ELSE 133>>)
            \cup Chk("C16-traffic-action-community-differs", SetOf(j.ecs) = Actions(r) /\ Len(j.ecs) = Cardinality(Actions(r)))
            \cup Chk("C16-well-formed-nlri-not-decoded-to-the-same-rule", j.redec = want)
            \cup Chk("C16-malformed-nlri-delivered-as-a-rule", j.refusedOk)
VARIABLES l, bad
JInit == l = 1 /\ bad = <<>>
JNext == /\ l <= Len(Tr) /\ l' = l + 1
         /\ LET v == Viol(JU(Tr[l].u), Tr[l]) IN bad' = IF v = {} THEN bad ELSE Append(bad, [line |-> l, id |-> Tr[l].id, clauses |-> v])
JSpec == JInit /\ [][JNext]_<<l, bad>>
Report == (l = Len(Tr) + 1) => PrintT(<<"VERIF", "verdict", Len(Tr), ToJsonArray(bad)>>)
=============================================================================
