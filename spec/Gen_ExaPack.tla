----------------------------- MODULE Gen_ExaPack -----------------------------
EXTENDS ExaPack
CONSTANT Width
VARIABLES u, bytes
RECURSIVE Vary(_, _)
Vary(R, k) == IF k = 0 THEN R
              ELSE Vary(R \cup UNION {UNION {{[r EXCEPT ![f] = v] : v \in Dom[f]} : f \in Fields} : r \in R}, k - 1)
Rows == {r \in Vary(Bases, Width) : WellFormed(r)}
GenInit == u \in Rows /\ bytes = <<>>
GenNext == UNCHANGED <<u, bytes>>
GenSpec == GenInit /\ [][GenNext]_<<u, bytes>>
TableOK == WellFormed(u)
=============================================================================
