-------------------------- MODULE Trace_ExaSession --------------------------
(***************************************************************************)
(* Trace validation for ExaSession.  One line per event recorded from the   *)
(* real Peer under a virtual clock (harness/peerdrv.py); many traces are     *)
(* batched, a "Begin" line resets the state and carries the neighbour's      *)
(* configuration.  Every event applies the effect of the ExaSession action   *)
(* it names at the logged virtual time; the clauses of the listed properties *)
(* that the step violates (XViol, TimeViol) are collected in `bad` with the   *)
(* trace id and line, so that the verdict is total and names the clause.     *)
(***************************************************************************)
EXTENDS ExaSession, Json, IOUtils, TLCExt

Tr == ndJsonDeserialize(IOEnv.TRACE_FILE)

VARIABLES l, cfgHold, bad
tvars == <<vars, l, cfgHold, bad>>
E == Tr[l]

Note(v) == bad' = IF v = {} THEN bad ELSE Append(bad, [tid |-> E.tid, line |-> l, e |-> E.e, t |-> E.t, clauses |-> v])
Stutter == UNCHANGED svars

TBegin ==
    /\ E.e = "Begin"
    /\ cfgHold' = E.hold /\ bad' = bad
    /\ fsm' = "IDLE" /\ open' = FALSE /\ sentOpen' = FALSE /\ gotOpen' = FALSE /\ gotKA' = FALSE /\ hold' = 0
    /\ inq' = <<>> /\ fault' = NoFault /\ mayFault' = {} /\ closing' = FALSE /\ notified' = FALSE
    /\ lastRx' = 0 /\ lastKA' = 0 /\ connAt' = 0 /\ apiUp' = FALSE /\ tear' = 0 /\ leftAt' = -1 /\ now' = 0

GotViol ==
    IF inq = <<>> THEN {}
    ELSE LET c == Head(inq)[1] IN
         Chk("C06-delivered-message-type-differs-from-what-was-sent",
             E.kind = "msg" => TypeOf(c) = E.type)
    \cup Chk("C10-error-raised-for-acceptable-input",
             E.kind = "error" => (Required(c, fsm) \cup Permitted(c, fsm)) # {})

TEvent ==
    /\ E.e # "Begin"
    /\ now' = E.t /\ UNCHANGED cfgHold
    /\ LET tv == TimeViol(E.t) \cup Chk("time-goes-backwards", E.t >= now) IN
       CASE E.e = "conn" /\ E.what \in {"outgoing", "incoming-accepted"} -> NewTransportEff(E.t) /\ Note(tv \cup NewTransportViol)
         [] E.e = "conn" /\ E.what = "incoming-refused" ->
                /\ mayFault' = mayFault \ {ReplaceMark}
                /\ UNCHANGED <<fsm, open, sentOpen, gotOpen, gotKA, hold, inq, fault, closing, notified, lastRx, lastKA, connAt, apiUp, tear, leftAt>>
                /\ Note(tv \cup Chk("C10-inbound-connection-refused-with-wrong-code", E.code = 6 /\ E.sub = 7))
         [] E.e = "conn" /\ E.what = "incoming-offered" ->
                /\ mayFault' = mayFault \cup {ReplaceMark} /\ Note(tv)
                /\ UNCHANGED <<fsm, open, sentOpen, gotOpen, gotKA, hold, inq, fault, closing, notified, lastRx, lastKA, connAt, apiUp, tear, leftAt>>
         [] E.e = "rx"       -> RemoteSendEff(E.cls, E.hold) /\ Note(tv)
         [] E.e = "got"      -> ConsumeEff(E.t, cfgHold) /\ Note(tv \cup ConsumeViol \cup GotViol)
         [] E.e = "tx"       -> TxEff(E.type, E.t) /\ Note(tv \cup TxViol(E.type, E.code, E.sub, E.t))
         [] E.e = "fsm"      -> FsmEff(E.frm, E.to, E.t) /\ Note(tv \cup FsmViol(E.frm, E.to))
         [] E.e = "close"    -> CloseEff /\ Note(tv \cup CloseViol)
         [] E.e = "api" /\ E.what = "up"   -> ApiUpEff /\ Note(tv \cup ApiUpViol)
         [] E.e = "api" /\ E.what = "down" -> ApiDownEff /\ Note(tv)
         [] E.e = "teardown" -> TeardownEff(E.code) /\ Note(tv)
         [] E.e = "remove"   -> TeardownEff(3) /\ Note(tv)          \* the operator removes the neighbour: an end it asked for
         [] OTHER            -> Stutter /\ Note(tv)

TNext == l <= Len(Tr) /\ l' = l + 1 /\ (TBegin \/ TEvent)

TInit == Init /\ l = 1 /\ cfgHold = 0 /\ bad = <<>>
TraceSpec == TInit /\ [][TNext]_tvars

Report == (l = Len(Tr) + 1) => PrintT(<<"VERIF", "verdict", Len(Tr), ToJsonArray(bad)>>)
=============================================================================
