------------------------- MODULE Judge_ExaUpdateFault -------------------------
(* Verdicts for C08: [id, u, obs] per corrupted UPDATE; Action(u) is the RFC 7606 decision. *)
EXTENDS ExaUpdateIn, Json, IOUtils

Tr == ndJsonDeserialize(IOEnv.TRACE_FILE)
SetOf(s) == {s[i] : i \in 1..Len(s)}
Chk(name, ok) == IF ok THEN {} ELSE {name}
JU(j) == [asn4 |-> j.asn4, addpath |-> j.addpath, ibgp |-> j.ibgp, extnh |-> j.extnh, mpr4 |-> j.mpr4, origin |-> j.origin, path |-> j.path, as4 |-> j.as4, med |-> j.med,
          pref |-> j.pref, atomic |-> j.atomic, aggr |-> j.aggr, comm |-> j.comm, orig |-> j.orig, unkT |-> j.unkT, unkNT |-> j.unkNT,
          ext |-> j.ext, partial |-> j.partial, rev |-> j.rev, nlri |-> j.nlri, wd |-> j.wd, mpr |-> j.mpr, mprLL |-> j.mprLL,
          mpu |-> j.mpu, fault |-> <<j.fault[1], j.fault[2]>>]
ObsAnn(o) == {<<<<x[1], x[2], x[3], x[4]>>, x[5]>> : x \in SetOf(o.announce)}
ObsWd(o)  == {<<x[1], x[2], x[3], x[4]>> : x \in SetOf(o.withdraw)}
ObsRib(o) == {<<<<x[1], x[2], x[3], x[4]>>, x[5]>> : x \in SetOf(o.ribin)}

\* is the named attribute absent from what was reported?
Absent(o, n) == CASE n = "atomic" -> ~o.atomic
                  [] n = "aggr" -> o.aggr = <<>>
                  [] n = "pref" -> o.pref = <<>>
                  [] n = "originator" -> o.originator = <<>>
                  [] n = "cluster" -> o.cluster = <<>>
                  [] OTHER -> TRUE
\* the value of the first occurrence was kept
FirstKept(u, o) == LET e == Outcome(u) n == u.fault[1] IN
                   CASE n = "origin" -> o.origin = e.origin
                     [] n = "med" -> o.med = e.med
                     [] n = "pref" -> o.pref = e.pref
                     [] n = "comm" -> o.comm = e.comm
                     [] n = "nexthop" -> ObsAnn(o) = e.announce
                     [] OTHER -> TRUE

Viol(u, o) ==
    LET e == Outcome(u) act == Action(u) reset == o.error # "" IN
    IF o.error # "" /\ SubSeq(o.error, 1, 6) # "notify"
    THEN {"C08-malformed-attribute-raised-something-else-than-a-notification"}
    ELSE CASE act = "reset" ->
                Chk("C08-malformed-mp-attribute-not-answered-with-update-message-error", reset /\ SubSeq(o.error, 1, 9) = "notify 3/")
           [] act = "withdraw" ->
                IF reset THEN Chk("C08-reset-with-a-code-other-than-update-message-error", SubSeq(o.error, 1, 9) = "notify 3/")
                ELSE Chk("C08-route-announced-although-an-attribute-is-malformed", ObsAnn(o) = {})
                     \cup Chk("C08-route-stored-in-adj-rib-in-although-an-attribute-is-malformed", ObsRib(o) = {})
                     \cup Chk("C08-routes-of-the-malformed-update-not-reported-as-withdrawn", {a[1] : a \in e.announce} \subseteq ObsWd(o))
           [] act = "discard" ->
                IF reset THEN Chk("C08-reset-with-a-code-other-than-update-message-error", SubSeq(o.error, 1, 9) = "notify 3/")
                ELSE IF ObsAnn(o) = {} THEN {}                                     \* stricter handling (treat-as-withdraw) is acceptable
                ELSE Chk("C08-attribute-discard-changed-the-routes", ObsAnn(o) = e.announce)
                     \cup Chk("C08-malformed-attribute-kept-instead-of-discarded", Absent(o, u.fault[1]))
                     \cup Chk("C08-attribute-discard-lost-other-attributes", o.origin = e.origin /\ o.med = e.med /\ o.comm = e.comm)
           [] act = "first" ->
                IF reset THEN Chk("C08-reset-with-a-code-other-than-update-message-error", SubSeq(o.error, 1, 9) = "notify 3/")
                ELSE IF ObsAnn(o) = {} THEN {}
                ELSE Chk("C08-duplicate-attribute-the-later-copy-won", FirstKept(u, o))
           [] OTHER -> {}

VARIABLES l, bad
JInit == l = 1 /\ bad = <<>>
JNext == /\ l <= Len(Tr) /\ l' = l + 1
         /\ LET v == Viol(JU(Tr[l].u), Tr[l].obs) IN bad' = IF v = {} THEN bad ELSE Append(bad, [line |-> l, id |-> Tr[l].id, clauses |-> v])
JSpec == JInit /\ [][JNext]_<<l, bad>>
Report == (l = Len(Tr) + 1) => PrintT(<<"VERIF", "verdict", Len(Tr), ToJsonArray(bad)>>)
=============================================================================
