--------------------------- MODULE Judge_ExaRobust ---------------------------
EXTENDS ExaRobust, Json, IOUtils
Tr == ndJsonDeserialize(IOEnv.TRACE_FILE)
\* the row is re-read from the line: only what Allowed looks at
JU(j) == [mut |-> [m |-> j.mutname], shape |-> j.shape]
VARIABLES l, bad
JInit == l = 1 /\ bad = <<>>
JNext == /\ l <= Len(Tr) /\ l' = l + 1
         /\ LET v == Allowed(JU(Tr[l]), Tr[l]) IN bad' = IF v = {} THEN bad ELSE Append(bad, [line |-> l, id |-> Tr[l].id, clauses |-> v])
JSpec == JInit /\ [][JNext]_<<l, bad>>
Report == (l = Len(Tr) + 1) => PrintT(<<"VERIF", "verdict", Len(Tr), ToJsonArray(bad)>>)
=============================================================================
