SPECIFICATION Spec
CONSTANTS
  MaxLens = {4096, 65535}
  Alphabet <- MCAlphabet
  CutOffsets <- MCCutOffsets
  MaxMsgs = 2
  MaxCuts = 2
INVARIANT Framed
INVARIANT Complete
CHECK_DEADLOCK FALSE
