------------------------------- MODULE ExaCodec -------------------------------
(***************************************************************************)
(* C15: encode / decode fidelity and the identity contract of routes.        *)
(*                                                                         *)
(* Three tables, all judged by TLC (Judge_ExaCodec):                          *)
(*  "nlri"   rows enumerated by Gen_ExaCodec: unicast, labeled (RFC 8277)     *)
(*           and VPN (RFC 4364 / 4659) NLRI of IPv4 and IPv6, with path        *)
(*           identifier (RFC 7911): Ref(r) is the RFC encoding written here;   *)
(*           the object built from route text must pack to Ref(r), Ref(r)       *)
(*           must decode to an equal object (==, hash, index) and pack back     *)
(*           to Ref(r); JSON / text renderings of two decodings are equal.      *)
(*  "pair"   rows (r, r2) one field apart: the identity contract               *)
(*           SameKey(r, r2) <=> equal index -- a route is identified by         *)
(*           family, path identifier, prefix and route distinguisher; the       *)
(*           label stack is payload (RFC 8277 2.4: a new label for the same     *)
(*           prefix replaces the old one; the withdraw carries 0x800000).       *)
(*  "trip"   one line per NLRI / attribute object obtained by decoding           *)
(*           ExaBGP's own message corpus or by the text grammar: no reference    *)
(*           encoding exists here for those families (EVPN, BGP-LS, MUP, ...):   *)
(*           the contract is identity -- pack(decode(b)) = b for bytes ExaBGP    *)
(*           itself produced, pack . decode idempotent for any accepted bytes,   *)
(*           decode(pack(x)) = x, renderings deterministic.                       *)
(***************************************************************************)
EXTENDS ExaWire

Dom == [ fam |-> {"v4u", "v6u", "v4l", "v6l", "v4v", "v6v"},
         pfx |-> {"def", "short", "mid", "odd", "host"},
         labels |-> {"none", "one", "two", "three", "max", "zero"},
         rd |-> {"none", "t0", "t1", "t2"},
         pid |-> {"none", "zero", "seven", "max"} ]
Base == [fam |-> "v4u", pfx |-> "mid", labels |-> "none", rd |-> "none", pid |-> "none"]
Bases == { Base, [Base EXCEPT !.fam = "v6u"],
           [Base EXCEPT !.fam = "v4l", !.labels = "one"], [Base EXCEPT !.fam = "v6l", !.labels = "two", !.pid = "seven"],
           [Base EXCEPT !.fam = "v4v", !.labels = "one", !.rd = "t0"], [Base EXCEPT !.fam = "v6v", !.labels = "one", !.rd = "t1"] }
Fields == DOMAIN Base
IsV6(r) == r.fam \in {"v6u", "v6l", "v6v"}
Labeled(r) == r.fam \in {"v4l", "v6l", "v4v", "v6v"}
Vpn(r) == r.fam \in {"v4v", "v6v"}

\* ---- concrete values ------------------------------------------------------------------------
Prefix(r) ==
    IF IsV6(r)
    THEN CASE r.pfx = "def" -> [bits |-> 0, bytes |-> <<>>]
           [] r.pfx = "short" -> [bits |-> 16, bytes |-> <<32, 1>>]
           [] r.pfx = "mid" -> [bits |-> 48, bytes |-> <<32, 1, 13, 184, 0, 1>>]
           [] r.pfx = "odd" -> [bits |-> 57, bytes |-> <<32, 1, 13, 184, 0, 1, 0, 128>>]
           [] OTHER -> [bits |-> 128, bytes |-> <<32, 1, 13, 184, 0, 1, 0, 0, 0, 0, 0, 0, 0, 0, 0, 7>>]
    ELSE CASE r.pfx = "def" -> [bits |-> 0, bytes |-> <<>>]
           [] r.pfx = "short" -> [bits |-> 8, bytes |-> <<10>>]
           [] r.pfx = "mid" -> [bits |-> 24, bytes |-> <<10, 0, 1>>]
           [] r.pfx = "odd" -> [bits |-> 25, bytes |-> <<10, 0, 1, 128>>]
           [] OTHER -> [bits |-> 32, bytes |-> <<10, 0, 1, 7>>]
LabelStack(r) == CASE r.labels = "one" -> <<100>> [] r.labels = "two" -> <<100, 200>> [] r.labels = "three" -> <<100, 200, 300>>
                   [] r.labels = "max" -> <<1048575>> [] r.labels = "zero" -> <<0>> [] OTHER -> <<>>
\* RFC 4364 4.2: type 0 = 2-byte AS : 4-byte number, type 1 = IPv4 : 2-byte number, type 2 = 4-byte AS : 2-byte number
RdBytes(r) == CASE r.rd = "t0" -> <<0, 0>> \o U16(65000) \o <<0, 0, 0, 1>>          \* 65000:1
                [] r.rd = "t1" -> <<0, 1, 1, 2, 3, 4>> \o U16(5)                      \* 1.2.3.4:5
                [] r.rd = "t2" -> <<0, 2>> \o <<250, 86, 234, 0>> \o U16(5)           \* 4200000000:5
                [] OTHER -> <<>>
PidBytes(r) == CASE r.pid = "zero" -> <<0, 0, 0, 0>> [] r.pid = "seven" -> <<0, 0, 0, 7>> [] r.pid = "max" -> <<255, 255, 255, 255>> [] OTHER -> <<>>

\* RFC 8277 2.2 / 2.3: each label is 20 bits + 3 bits + the bottom-of-stack bit, set on the last one only
LabelBytes(l, bos) == <<l \div 4096, (l \div 16) % 256, (l % 16) * 16 + (IF bos THEN 1 ELSE 0)>>
RECURSIVE StackBytes(_)
StackBytes(ls) == IF ls = <<>> THEN <<>> ELSE LabelBytes(Head(ls), Len(ls) = 1) \o StackBytes(Tail(ls))

\* the NLRI as it travels: [path identifier] length labels [rd] prefix; the length counts labels, rd and prefix bits
Ref(r) == LET p == Prefix(r) ls == LabelStack(r) IN
          PidBytes(r) \o <<24 * Len(ls) + (IF Vpn(r) THEN 64 ELSE 0) + p.bits>> \o StackBytes(ls) \o RdBytes(r) \o p.bytes
WellFormed(r) == /\ (Labeled(r) <=> r.labels # "none")
                 /\ (Vpn(r) <=> r.rd # "none")
                 /\ (Vpn(r) => r.pid = "none")          \* ExaBGP's text grammar has no path-information for mpls-vpn sessions here
                 /\ 24 * Len(LabelStack(r)) + (IF Vpn(r) THEN 64 ELSE 0) + Prefix(r).bits <= 255   \* the length is one octet
AfiOf(r) == IF IsV6(r) THEN 2 ELSE 1
SafiOf(r) == IF Vpn(r) THEN 128 ELSE IF Labeled(r) THEN 4 ELSE 1

\* the identity of a route: everything but the label stack
SameKey(a, b) == a.fam = b.fam /\ a.pid = b.pid /\ a.pfx = b.pfx /\ a.rd = b.rd

\* ---- SR Policy tunnel encapsulation (RFC 9012 Tunnel Encapsulation attribute, RFC 9830 SR Policy sub-TLVs) ---------
\* A second table with a reference encoding: the attribute as a peer may send it, including what the text grammar
\* cannot express (the SRv6 Binding SID flags and its optional "endpoint behavior and SID structure").
TDom == [ pref |-> {"none", "p100"},
          \* rows are in the normal form of ExaBGP's own encoder, so that "re-encoding gives the same bytes" applies: a segment
          \* list always carries its weight (ExaBGP adds the default weight 1 when it is absent), and the MPLS Binding SID is
          \* left out (ExaBGP re-encodes its flags octet and bottom-of-stack bit its own way: observed, not judged)
          bsid |-> {"none", "srv6", "srv6si", "srv6beh", "srv6sibeh"},
          weight |-> {"w1"},
          segs |-> {"a", "aa", "b", "bbeh", "ab", "abbeh"} ]
TBase == [pref |-> "p100", bsid |-> "srv6", weight |-> "w1", segs |-> "aa"]
TFields == DOMAIN TBase
SubTlv(t, v) == IF t < 128 THEN <<t, Len(v)>> \o v ELSE <<t>> \o U16(Len(v)) \o v      \* RFC 9012 3: two length octets from type 128 on
Label4(l) == <<l \div 4096, (l \div 16) % 256, (l % 16) * 16, 0>>                       \* label, TC 0, S 0, TTL 0
Label4S(l) == <<l \div 4096, (l \div 16) % 256, (l % 16) * 16 + 1, 0>>                  \* ... bottom of stack: the last label of a list
Sid6(last) == <<252, 0, 0, 0, 1, 0, 0, 0, 0, 0, 0, 0, 0, 0, 0, last>>
Behaviour == U16(65) \o <<0, 0>> \o <<32, 0, 16, 0>>                                     \* endpoint behaviour, reserved, LB / LN / Fun / Arg lengths
TPref(t) == IF t.pref = "none" THEN <<>> ELSE SubTlv(12, <<0, 0>> \o U32(100))
TBsid(t) ==
    CASE t.bsid = "mpls" -> SubTlv(13, <<0, 0>> \o Label4(24000))
      [] t.bsid \in {"srv6", "srv6si", "srv6beh", "srv6sibeh"} ->
            LET si == IF t.bsid \in {"srv6si", "srv6sibeh"} THEN 192 ELSE 0               \* S-Flag 0x80, I-Flag 0x40
                beh == t.bsid \in {"srv6beh", "srv6sibeh"}                                 \* B-Flag 0x20: the structure follows
            IN SubTlv(20, <<si + (IF beh THEN 32 ELSE 0), 0>> \o Sid6(1) \o (IF beh THEN Behaviour ELSE <<>>))
      [] OTHER -> <<>>
SegA(l) == SubTlv(1, <<0, 0>> \o Label4(l))
SegAS(l) == SubTlv(1, <<0, 0>> \o Label4S(l))
SegB(beh) == SubTlv(13, <<IF beh THEN 16 ELSE 0, 0>> \o Sid6(9) \o (IF beh THEN Behaviour ELSE <<>>))   \* segment B-Flag 0x10
TSegs(t) == CASE t.segs = "a" -> SegAS(16001) [] t.segs = "aa" -> SegA(16001) \o SegAS(16002)
              [] t.segs = "b" -> SegB(FALSE) [] t.segs = "bbeh" -> SegB(TRUE)
              \* (normal form of ExaBGP's encoder: the last MPLS segment of a list carries the bottom-of-stack bit)
              [] t.segs = "ab" -> SegAS(16001) \o SegB(FALSE) [] OTHER -> SegAS(16001) \o SegB(TRUE)
TSegList(t) == SubTlv(128, <<0>> \o (IF t.weight = "none" THEN <<>> ELSE SubTlv(9, <<0, 0>> \o U32(1))) \o TSegs(t))
TunnelRef(t) == LET subs == TPref(t) \o TBsid(t) \o TSegList(t)
                    tlv == U16(15) \o U16(Len(subs)) \o subs                               \* tunnel type 15 = SR Policy
                IN <<192, 23, Len(tlv)>> \o tlv                                            \* optional transitive, code 23

\* ---- judgement ------------------------------------------------------------------------------
Chk(name, ok) == IF ok THEN {} ELSE {name}

\* j.kind = "nlri": [r, error, packed, redecOk, redec, eq, hashEq, idxEq, renderSame, fam: <<afi, safi>>]
ViolNlri(j) ==
    IF j.error # "" THEN {"C15-route-text-refused-or-raised"}
    ELSE Chk("C15-packed-nlri-differs-from-the-rfc-encoding", j.packed = Ref(j.r))
    \cup Chk("C15-nlri-leaves-under-another-family", j.fam = <<AfiOf(j.r), SafiOf(j.r)>>)
    \cup Chk("C15-rfc-encoding-not-decoded", j.redecOk)
    \cup (IF ~j.redecOk THEN {} ELSE
            Chk("C15-decoded-nlri-packs-to-other-bytes", j.redec = Ref(j.r))
       \cup Chk("C15-decoded-nlri-not-equal-to-the-one-encoded", j.eq)
       \cup Chk("C15-equal-nlri-with-different-hash", j.eq => j.hashEq)
       \cup Chk("C15-equal-nlri-with-different-index", j.idxEq)
       \cup Chk("C15-rendering-of-the-same-bytes-differs", j.renderSame))

\* j.kind = "pair": [r, r2, error, idxEq, eq, hashEq]
ViolPair(j) ==
    IF j.error # "" THEN {"C15-route-text-refused-or-raised"}
    ELSE Chk("C15-routes-differing-in-family-path-id-prefix-or-rd-share-an-index", ~SameKey(j.r, j.r2) => ~j.idxEq)
    \cup Chk("C15-same-route-with-another-label-stack-has-another-index", SameKey(j.r, j.r2) => j.idxEq)
    \cup Chk("C15-different-routes-compare-equal", ~SameKey(j.r, j.r2) => ~j.eq)     \* routes one label stack apart may be "the same route"
    \cup Chk("C15-equal-routes-with-different-hash", j.eq => j.hashEq)

\* j.kind = "trip": [what, canonical, error, inb, out, out2, eq, hashEq, idxEq, renderSame]
\*   inb = the bytes decoded, out = pack(decode(inb)), out2 = pack(decode(out))
ViolTrip(j) ==
    IF j.error # "" THEN {"C15-round-trip-raised"}
    ELSE Chk("C15-reencoding-canonical-bytes-gives-other-bytes", j.canonical => j.out = j.inb)
    \cup Chk("C15-encode-decode-is-not-idempotent", j.out2 = j.out)
    \cup Chk("C15-decoding-what-was-encoded-gives-another-object", j.eq)
    \cup Chk("C15-equal-objects-with-different-hash-or-index", j.eq => (j.hashEq /\ j.idxEq))
    \cup Chk("C15-rendering-of-the-same-bytes-differs", j.renderSame)

Viol(j) == CASE j.kind = "nlri" -> ViolNlri(j) [] j.kind = "pair" -> ViolPair(j) [] OTHER -> ViolTrip(j)
=============================================================================
