----------------------------- MODULE Obs_ExaRib -----------------------------
(***************************************************************************)
(* The listed properties C04 / C11 evaluated on what was OBSERVED from the  *)
(* real code, independently of ExaRib's hidden queue state.  The abstract    *)
(* specification here is the operator's intent: `want` is the table the      *)
(* sequence of operations asks for (a fold, no queues); ExaRib refines it     *)
(* (ExaRib.cache = want, checked by TLC in MC_ExaRib as RefinesIntent).       *)
(*                                                                         *)
(*  A1  the Adj-RIB-Out ExaBGP reports equals the intent after every call    *)
(*  A2  C04 Converged: session up, no generator, nothing pending  =>         *)
(*      table rebuilt from the wire = reported Adj-RIB-Out                   *)
(*  A3  C11: flushing routes never puts an End-of-RIB marker on the wire     *)
(*  A4  C04: an UPDATE never announces a key whose intent is "withdrawn"      *)
(*      unless a withdraw of it follows before quiescence (checked via A2)   *)
(* One deterministic step per line; all violations are collected in `bad`.   *)
(***************************************************************************)
EXTENDS Naturals, Sequences, FiniteSets, TLC, Json, IOUtils

CONSTANTS Keys, WdNames
None == "none"
Tr == ndJsonDeserialize(IOEnv.TRACE_FILE)

VARIABLES l, want, wd, bad
ovars == <<l, want, wd, bad>>
E == Tr[l]

Empty == [k \in Keys |-> None]
WdEmpty == [w \in WdNames |-> [plus |-> {}, minus |-> {}]]

NextWant ==
    CASE E.name = "Begin"       -> Empty
      [] E.name = "Announce"    -> [want EXCEPT ![E.k] = E.a]
      [] E.name = "Withdraw"    -> [want EXCEPT ![E.k] = None]
      [] E.name = "WithdrawAll" -> Empty
      [] E.name = "WatchdogAdd" -> IF E.withdrawn THEN want ELSE [want EXCEPT ![E.k] = E.a]
      [] E.name = "WatchdogAnnounce" ->
            [k \in Keys |-> IF \E e \in wd[E.w].minus : e[1] = k
                            THEN (CHOOSE e \in wd[E.w].minus : e[1] = k)[2] ELSE want[k]]
      [] E.name = "WatchdogWithdraw" ->
            [k \in Keys |-> IF \E e \in wd[E.w].plus : e[1] = k THEN None ELSE want[k]]
      [] OTHER -> want

NextWd ==
    CASE E.name = "Begin" -> WdEmpty
      [] E.name = "WatchdogAdd" ->
            IF E.withdrawn THEN [wd EXCEPT ![E.w].minus = {e \in @ : e[1] # E.k} \cup {<<E.k, E.a>>}]
            ELSE [wd EXCEPT ![E.w].plus = {e \in @ : e[1] # E.k} \cup {<<E.k, E.a>>}]
      [] E.name = "WatchdogAnnounce" ->
            [wd EXCEPT ![E.w].plus = {e \in @ : ~\E m \in wd[E.w].minus : m[1] = e[1]} \cup wd[E.w].minus, ![E.w].minus = {}]
      [] E.name = "WatchdogWithdraw" ->
            [wd EXCEPT ![E.w].minus = {e \in @ : ~\E m \in wd[E.w].plus : m[1] = e[1]} \cup wd[E.w].plus, ![E.w].plus = {}]
      [] OTHER -> wd

Violations(w2) ==
    IF E.name = "Begin" THEN {}
    ELSE (IF E.obs.cache # w2 THEN {"A1-adj-rib-out-differs-from-intent"} ELSE {})
      \cup (IF E.obs.up /\ ~E.obs.live /\ ~E.obs.pending /\ E.obs.peer # E.obs.cache
            THEN {"A2-peer-table-differs-after-drain"} ELSE {})
      \cup (IF E.name = "SendOne" /\ \E i \in 1..Len(E.wire) : E.wire[i].t = "upd" /\ E.wire[i].eor # "none"
            THEN {"A3-end-of-rib-in-update-stream"} ELSE {})

Step ==
    /\ l <= Len(Tr)
    /\ l' = l + 1
    /\ want' = NextWant
    /\ wd' = NextWd
    /\ LET v == Violations(NextWant) IN
         bad' = IF v = {} THEN bad ELSE Append(bad, [tid |-> E.tid, line |-> l, rules |-> v])

OInit == l = 1 /\ want = Empty /\ wd = WdEmpty /\ bad = <<>>
ObsSpec == OInit /\ [][Step]_ovars

Report == (l = Len(Tr) + 1) => PrintT(<<"VERIF", "obs", ToJsonArray(bad)>>)
Done == TRUE
=============================================================================
