SPECIFICATION Spec
CONSTANTS
  Batch = 2
  MaxRecs = 5
  Lens = {1, 2, 3}
  MaxOps = 0
  HeadRequeue = FALSE
VIEW View
INVARIANT Fifo
INVARIANT NoEmptyItem
CHECK_DEADLOCK FALSE
