--------------------------- MODULE MC_ExaUpdateHist ---------------------------
EXTENDS ExaUpdateHist
M(id, blk, mp, taw) == [id |-> id, blk |-> blk, mp |-> mp, taw |-> taw]
\* the abstract alphabet; harness/c19.py maps every id to concrete bytes (several ids share a block on purpose)
MCMsgs == { M("base", "B1", FALSE, FALSE),        \* IPv4 announce, ordinary attributes
            M("base6", "B1mp", TRUE, FALSE),      \* same attributes + MP_REACH (IPv6 announce)
            M("wd", "empty", FALSE, FALSE),       \* withdraw only: empty attribute block
            M("mixed", "B1mpu", TRUE, FALSE),     \* IPv4 announce + MP_UNREACH
            M("aggr2", "Bag", FALSE, FALSE),      \* AGGREGATOR in 2-byte form: valid on asn2, attribute discard on asn4
            M("taw", "Btaw", FALSE, TRUE),        \* malformed MED: treat-as-withdraw
            M("other", "B2", FALSE, FALSE),       \* other ordinary attributes
            \* AS_PATH bytes valid both ways: two sequences of 2-byte AS numbers, or one sequence of two 4-byte ones
            M("ambig", "Bamb", FALSE, FALSE),
            \* an AIGP attribute: kept on a session whose neighbour enabled it, discarded elsewhere (RFC 7311 3.1)
            M("aigp", "Baigp", FALSE, FALSE) }
MCSessDep == {"Bag", "Bamb", "Baigp"}
=============================================================================
