----------------------------- MODULE Gen_ExaText -----------------------------
(* TLC enumerates the C18 rows and, for the accepted ones, the bytes each kind of session must carry *)
EXTENDS ExaText
VARIABLES u, frags
GenInit == u \in Rows /\ frags = [s \in Sessions |-> IF Accept(u) THEN Frag(u, s) ELSE <<>>]
GenSpec == GenInit /\ [][UNCHANGED <<u, frags>>]_<<u, frags>>
\* sanity of the table: every accepted row constrains at least one kind of session; no fragment is longer than a small UPDATE
TableOK == (Accept(u) /\ ~Free(u) => \E s \in Sessions : frags[s] # <<>>) /\ \A s \in Sessions : Len(frags[s]) <= 32
=============================================================================
