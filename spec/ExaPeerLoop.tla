----------------------------- MODULE ExaPeerLoop -----------------------------
(***************************************************************************)
(* The Peer coroutine of reactor/peer/peer.py (run / _run / _establish /     *)
(* _main / _reset / _close / handle_connection) as a control-flow automaton  *)
(* over the state of ExaSession, closed by an environment: the remote        *)
(* speaker (messages of every class of ExaSession!Classes, EOF), the TCP     *)
(* layer (connect succeeds / is refused, an inbound connection arrives), the *)
(* operator (teardown) and time.                                             *)
(*                                                                         *)
(* One system action per observable step of the code, in the order the code  *)
(* takes them (the order was read off recorded traces of the real Peer and   *)
(* is re-checked on every trace by Trace_ExaPeerLoop): `pc` is the place     *)
(* where the coroutine stands.  The system actions are NOT guarded by the    *)
(* property clauses of ExaSession: each step adds the clauses it violates    *)
(* (XViol) to `viol`, every passage of time adds TimeViol, and the           *)
(* invariant NoViolation states that the design as written here never        *)
(* violates a clause of C05 / C10 / C12 under any behaviour of the           *)
(* environment.  Three switches re-introduce realistic defects (ESTABLISHED  *)
(* before the KEEPALIVE is read, no hold timer, a NOTIFICATION answered):    *)
(* TLC must reject each of them, or the invariant is vacuous.                *)
(*                                                                         *)
(* Time: system steps take no time; the environment lets time pass only when *)
(* the system has nothing to do, and never beyond the next deadline of a     *)
(* timer without the system having had its turn (timed-automaton semantics). *)
(* `script` is the history of the environment's actions: it is what the      *)
(* harness replays into the real Peer (sessioncheck.model_scripts).          *)
(***************************************************************************)
EXTENDS ExaSession

CONSTANTS CfgHold,            \* configured hold time (ms)
          Offers,             \* hold times (ms) the remote speaker may offer in its OPEN
          SendClasses,        \* classes the remote speaker may send
          Ticks,              \* durations (ms) the environment may let pass
          TearCodes,          \* teardown codes the operator may ask for
          Budget,             \* number of environment actions per behaviour
          EdgeCover,          \* TRUE: one script per (state, last environment action), FALSE: one per state
          EstablishEarly, NoHoldTimer, AnswerNotification,  \* the broken variants
          WithRemove,         \* TRUE: the environment may remove the neighbour and configure it again
          StarveAccepted      \* TRUE: the behaviour before fix 94330ca (DESIGN 10) (an accepted inbound connection is not served)

VARIABLES pc,          \* control location of the coroutine
          cause,       \* <<code, subcode>> of the Notify exception being handled
          deaf,        \* the coroutine awaits a read on a transport that handle_connection replaced (named deviation)
          waitFrom,    \* time at which the wait for the peer's OPEN began
          delayUntil,  \* the run loop does not start an attempt before this time
          viol,        \* clauses of C05/C10/C12 violated so far
          budget, script,
          lastEnv,     \* the last environment action other than a tick (part of the edge-cover view)
          warm         \* handshake messages (the first valid OPEN, the first KEEPALIVE after it) already given for free

pvars   == <<pc, cause, deaf, waitFrom, delayUntil, viol, budget, script, warm, lastEnv>>
allvars == <<vars, pvars>>

None == <<0, 0>>
Min(a, b) == IF a < b THEN a ELSE b
KaEvery == (hold \div 3000) * 1000

Ev(do, cls, h, ms, code) == [do |-> do, cls |-> cls, hold |-> h, ms |-> ms, code |-> code]

PInit ==
    /\ Init
    /\ pc = "run" /\ cause = None /\ deaf = FALSE /\ waitFrom = 0 /\ delayUntil = 0 /\ viol = {}
    /\ budget = Budget /\ script = <<>> /\ warm = 0 /\ lastEnv = Ev("", "", 0, 0, 0)

\* ---------------------------------------------------------------------------------------
\* system steps: Sys(effect on ExaSession's state, clauses violated, next pc)
Sys(eff, v, next) ==
    /\ eff
    /\ viol' = viol \cup v
    /\ pc' = next
    /\ UNCHANGED <<now, budget, script, warm, lastEnv>>
Same == UNCHANGED <<cause, deaf, waitFrom, delayUntil>>
Skip == UNCHANGED svars

\* where a consumed input sends the coroutine: the exception Protocol.read_* raises, or the next statement
Route(c, s, ok) ==
    IF c = "EOF" THEN "f0"                                   \* NetworkError
    ELSE IF c = "NOTIF" THEN (IF AnswerNotification THEN "t0" ELSE "t1")   \* Notification: no answer
    ELSE IF Required(c, s) # {} THEN "t0"                     \* Notify
    ELSE ok
\* the NOTIFICATION the code raises for class c consumed in state s (one of the required ones)
CauseOf(c, s) ==
    IF c = "NOTIF" THEN {<<6, 0>>}
    ELSE { <<f[1], IF f[2] = {} THEN 0 ELSE CHOOSE x \in f[2] : TRUE>> : f \in Required(c, s) }

\* where the RFCs leave the choice (Permitted), the code may also end the session with one of the permitted NOTIFICATIONs
MayEnd(c, s) == { <<f[1], IF f[2] = {} THEN 0 ELSE CHOOSE x \in f[2] : TRUE>> : f \in Permitted(c, s) }
                \cup (IF c = "KA" /\ s = "ESTABLISHED" /\ hold = 0 THEN {<<2, 6>>, <<5, 3>>} ELSE {})   \* as ExaSession!ConsumeEff allows
Read(ok) ==                                                    \* one message (or EOF) consumed from the transport
    /\ inq # <<>> /\ ~deaf
    /\ LET c == Head(inq)[1] IN
       \/ /\ Sys(ConsumeEff(now, CfgHold), ConsumeViol, Route(c, fsm, ok))
          /\ IF Route(c, fsm, ok) = "t0" THEN cause' \in CauseOf(c, fsm) \cup MayEnd(c, fsm) ELSE cause' = cause
          /\ UNCHANGED <<deaf, waitFrom, delayUntil>>
       \/ /\ Route(c, fsm, ok) = ok /\ MayEnd(c, fsm) # {}
          /\ Sys(ConsumeEff(now, CfgHold), ConsumeViol, "t0")
          /\ cause' \in MayEnd(c, fsm)
          /\ UNCHANGED <<deaf, waitFrom, delayUntil>>

\* run(): while True: ... if self._restart: await self._run()
G_Active == pc = "run" /\ now >= delayUntil
SActive  == G_Active /\ Sys(FsmEff(fsm, "ACTIVE", now), FsmViol(fsm, "ACTIVE"), "e1") /\ Same
\* _establish: fsm ACTIVE -> IDLE, then connect unless handle_connection already provided a transport
G_Idle   == pc = "e1"
SIdle    == G_Idle /\ Sys(FsmEff("ACTIVE", "IDLE", now), FsmViol("ACTIVE", "IDLE"), IF open THEN "e3" ELSE "e2") /\ Same
G_Conn   == pc = "e3"
SConn    == G_Conn /\ Sys(FsmEff("IDLE", "CONNECT", now), FsmViol("IDLE", "CONNECT"), "e4") /\ Same
G_Open   == pc = "e4"
SOpen    == G_Open /\ Sys(TxEff(OPEN, now), TxViol(OPEN, 0, 0, now), "e5") /\ Same
G_OSent  == pc = "e5"
SOSent   == G_OSent /\ Sys(FsmEff("CONNECT", "OPENSENT", now), FsmViol("CONNECT", "OPENSENT"), "e6")
                    /\ waitFrom' = now /\ UNCHANGED <<cause, deaf, delayUntil>>
\* _read_open: wait_for(read_open, openwait)
G_ROpen  == pc = "e6" /\ inq # <<>> /\ ~deaf
SROpen   == pc = "e6" /\ Read("e7")
G_OWait  == pc = "e6" /\ (inq = <<>> \/ deaf) /\ now - waitFrom >= OpenWait
SOWait   == G_OWait /\ Sys(Skip, {}, "t0") /\ cause' = <<5, 1>> /\ UNCHANGED <<deaf, waitFrom, delayUntil>>
G_OConf  == pc = "e7"
SOConf   == G_OConf /\ Sys(FsmEff("OPENSENT", "OPENCONFIRM", now), FsmViol("OPENSENT", "OPENCONFIRM"), "e8") /\ Same
G_Ka0    == pc = "e8"
SKa0     == G_Ka0 /\ Sys(TxEff(KEEPALIVE, now), TxViol(KEEPALIVE, 0, 0, now), IF EstablishEarly THEN "e10" ELSE "e9") /\ Same
G_RKa    == pc = "e9" /\ inq # <<>> /\ ~deaf
SRKa     == pc = "e9" /\ Read("e10")
G_Est    == pc = "e10"
SEst     == G_Est /\ Sys(FsmEff("OPENCONFIRM", "ESTABLISHED", now), FsmViol("OPENCONFIRM", "ESTABLISHED"), "m0") /\ Same
\* _main: if self._teardown: raise Notify(6, 3); ... processes.up()
G_Up     == pc = "m0"
SUp      == G_Up /\ IF tear # 0
                    THEN Sys(Skip, {}, "t0") /\ cause' = <<6, 3>> /\ UNCHANGED <<deaf, waitFrom, delayUntil>>
                    ELSE Sys(ApiUpEff, ApiUpViol, "m1") /\ Same
G_Eor    == pc = "m1"
SEor     == G_Eor /\ Sys(TxEff(UPDATE, now), TxViol(UPDATE, 0, 0, now), "m2") /\ Same        \* End-of-RIB of the first batch
\* the main loop, one disjunct per thing an iteration can do ("m1": the End-of-RIB of the first batch is still to be sent)
Main == {"m1", "m2"}
G_MRead  == pc \in Main /\ inq # <<>> /\ ~deaf
SMRead   == pc \in Main /\ Read(pc)
G_Hold   == pc \in Main /\ hold > 0 /\ now - lastRx > hold /\ ~NoHoldTimer
SHold    == G_Hold /\ Sys(Skip, {}, "t0") /\ cause' = <<4, 0>> /\ UNCHANGED <<deaf, waitFrom, delayUntil>>
G_Ka     == pc \in Main /\ hold > 0 /\ now - lastKA >= KaEvery
SKa      == G_Ka /\ Sys(TxEff(KEEPALIVE, now), TxViol(KEEPALIVE, 0, 0, now), pc) /\ Same
G_Tear   == pc \in Main /\ tear # 0
STear    == G_Tear /\ Sys(Skip, {}, "t0") /\ cause' = <<6, tear>> /\ UNCHANGED <<deaf, waitFrom, delayUntil>>
\* _run: except Notify: new_notification, _reset -> _close: api down, fsm IDLE, proto.close
G_Notify == pc = "t0"
SNotify  == G_Notify /\ (IF open THEN Sys(TxEff(NOTIFICATION, now), TxViol(NOTIFICATION, cause[1], cause[2], now), "t1")
                                 ELSE Sys(Skip, {}, "t1")) /\ Same
\* the NOTIFICATION could not be written because the remote end is gone: the writer closes the connection itself
\* (_run: except (NetworkError, ProcessError): 'notification.send.failed'), the rest of _reset follows
G_WFail  == pc = "t1" /\ open /\ notified /\ \E i \in 1..Len(inq) : inq[i][1] = "EOF"
SWFail   == G_WFail /\ Sys(CloseEff, CloseViol, "t1") /\ Same
G_Down   == pc = "t1"
SDown    == G_Down /\ (IF fsm \notin {"IDLE", "ACTIVE"} THEN Sys(ApiDownEff, {}, "t2") ELSE Sys(Skip, {}, "t2")) /\ Same
G_ToIdle == pc = "t2"
SToIdle  == G_ToIdle /\ Sys(FsmEff(fsm, "IDLE", now), FsmViol(fsm, "IDLE"), "t3") /\ Same
G_Close  == pc = "t3"
SClose   == G_Close /\ (IF open THEN Sys(CloseEff, CloseViol, "run") ELSE Sys(Skip, {}, "run"))
                    /\ delayUntil' = now + 100 /\ cause' = None /\ deaf' = FALSE /\ UNCHANGED waitFrom
\* except NetworkError (EOF): the connection closed itself in the reader, then _reset
G_FClose == pc = "f0"
SFClose  == G_FClose /\ Sys(CloseEff, CloseViol, "t1") /\ Same

SysNext == SActive \/ SIdle \/ SConn \/ SOpen \/ SOSent \/ SROpen \/ SOWait \/ SOConf \/ SKa0 \/ SRKa \/ SEst \/ SUp \/ SEor
           \/ SMRead \/ SHold \/ SKa \/ STear \/ SNotify \/ SWFail \/ SDown \/ SToIdle \/ SClose \/ SFClose
SysEnabled == G_Active \/ G_Idle \/ G_Conn \/ G_Open \/ G_OSent \/ G_ROpen \/ G_OWait \/ G_OConf \/ G_Ka0 \/ G_RKa \/ G_Est
              \/ G_Up \/ G_Eor \/ G_MRead \/ G_Hold \/ G_Ka \/ G_Tear \/ G_Notify \/ G_WFail \/ G_Down \/ G_ToIdle \/ G_Close \/ G_FClose

\* ---------------------------------------------------------------------------------------
\* environment
Env(e) == budget > 0 /\ budget' = budget - 1 /\ script' = Append(script, e) /\ lastEnv' = e /\ UNCHANGED warm
Quiet == ~SysEnabled
RemoteThere == open /\ ~closing /\ ~notified /\ \A i \in 1..Len(inq) : inq[i][1] # "EOF"

\* the outgoing connect succeeds (not counted) or is refused (Interrupted -> _reset)
EConnectOk ==
    /\ pc = "e2" /\ NewTransportEff(now) /\ viol' = viol \cup NewTransportViol /\ pc' = "e3"
    /\ UNCHANGED <<now, budget, script, warm, lastEnv>> /\ Same
EConnectFail ==
    /\ pc = "e2" /\ Env(Ev("refuse", "", 0, 0, 0)) /\ Skip /\ pc' = "t1" /\ UNCHANGED <<now, viol>> /\ Same

ReadPoint == pc \in {"e6", "e9", "m2"} /\ ~deaf
\* the handshake that brings a behaviour to ESTABLISHED for the first time is not counted in the budget
Free(c) == (warm = 0 /\ c = "OPEN" /\ pc = "e6" /\ inq = <<>>) \/ (warm = 1 /\ c = "KA" /\ pc = "e9" /\ inq = <<>>)
ESend(c, h) ==
    /\ ReadPoint /\ RemoteThere /\ Len(inq) < 2
    /\ IF Free(c) THEN warm' = warm + 1 /\ budget' = budget /\ script' = Append(script, Ev("send", c, h, 0, 0)) /\ UNCHANGED lastEnv
                  ELSE Env(Ev("send", c, h, 0, 0))
    /\ RemoteSendEff(c, h)
    /\ UNCHANGED <<now, pc, viol>> /\ Same
ESendAny == \E c \in SendClasses :
               IF TypeOf(c) = OPEN THEN \E h \in Offers : ESend(c, IF c = "OPEN-hold" THEN 2000 ELSE h) ELSE ESend(c, 0)

ETeardown(code) ==
    /\ Quiet /\ tear = 0 /\ pc \in {"e6", "e9", "m2"}
    /\ Env(Ev("teardown", "", 0, 0, code))
    /\ TeardownEff(code)
    /\ UNCHANGED <<now, pc, viol>> /\ Same

\* An inbound connection (Peer.handle_connection): refused with 6/7 when established (or in OPENCONFIRM when our
\* router-id is the higher one), otherwise _close() -- api down, fsm IDLE, old transport closed -- and the accepted
\* connection becomes the transport; the coroutine is cancelled and started again by the reactor, so that the new
\* transport is served.  StarveAccepted: nothing restarts the coroutine (fsm_runner.clear() only acted on the legacy
\* generator), it keeps waiting on the transport that was closed until open-wait expires, then writes 5/1 on the new one.
Replace ==
    /\ fsm' = "IDLE" /\ apiUp' = FALSE
    /\ open' = TRUE /\ sentOpen' = FALSE /\ gotOpen' = FALSE /\ gotKA' = FALSE /\ hold' = 0
    /\ inq' = <<>> /\ fault' = NoFault /\ mayFault' = {} /\ closing' = FALSE /\ notified' = FALSE /\ connAt' = now /\ leftAt' = -1
    /\ UNCHANGED <<lastRx, lastKA, tear>>
    /\ viol' = viol \cup FsmViol(fsm, "IDLE")
EIncoming ==
    /\ Quiet /\ pc \in {"run", "e6", "e9", "m2"}
    /\ Env(Ev("incoming", "", 0, 0, 0))
    /\ \/ fsm \in {"ESTABLISHED", "OPENCONFIRM"} /\ Skip /\ UNCHANGED <<pc, viol, deaf, delayUntil>>          \* refused
       \/ pc = "run" /\ NewTransportEff(now) /\ viol' = viol \cup NewTransportViol /\ delayUntil' = now /\ UNCHANGED <<pc, deaf>>
       \/ pc \in {"e6", "e9"} /\ Replace
          /\ IF StarveAccepted THEN deaf' = TRUE /\ UNCHANGED <<pc, delayUntil>>
                               ELSE deaf' = FALSE /\ pc' = "run" /\ delayUntil' = now
    /\ UNCHANGED <<now, cause, waitFrom>>

\* The neighbour is removed from the configuration (Reactor.reload without it, `peer delete`, shutdown): Peer.remove() /
\* shutdown() = _stop(): _close() -- api down from a connected state, fsm IDLE, transport closed, no NOTIFICATION -- then
\* stop(): fsm IDLE again, no restart; the coroutine ends.  Configured again, a new Peer starts from scratch.
ERemove ==
    /\ Quiet /\ pc \in {"run", "e6", "e9", "m2"}
    /\ Env(Ev("remove", "", 0, 0, 0))
    /\ fsm' = "IDLE" /\ apiUp' = FALSE /\ open' = FALSE /\ inq' = <<>> /\ leftAt' = -1 /\ tear' = 0
    /\ UNCHANGED <<sentOpen, gotOpen, gotKA, hold, fault, mayFault, closing, notified, lastRx, lastKA, connAt>>
    /\ viol' = viol \cup FsmViol(fsm, "IDLE")
    /\ pc' = "gone" /\ deaf' = FALSE /\ UNCHANGED <<now, cause, waitFrom, delayUntil>>
EReadd ==
    /\ pc = "gone"
    /\ Env(Ev("readd", "", 0, 0, 0))
    /\ pc' = "run" /\ delayUntil' = now
    /\ UNCHANGED <<svars, now, cause, deaf, waitFrom, viol>>

\* the next moment at which a timer hands the turn to the system
Deadline ==
    IF pc = "run" THEN delayUntil
    ELSE IF pc = "e6" THEN waitFrom + OpenWait
    ELSE IF pc \in Main /\ hold > 0 THEN Min(lastRx + hold + 1, lastKA + KaEvery)
    ELSE -1
\* A tick that only brings time to the next deadline is not counted in the budget (the timers would otherwise eat it up);
\* the relative VIEW keeps the exploration finite.
ETick(d) ==
    /\ Quiet /\ pc # "e2"
    /\ LET cut == Deadline > now /\ Deadline <= now + d IN
       /\ now' = IF cut THEN Deadline ELSE now + d
       /\ IF cut THEN budget' = budget ELSE budget > 0 /\ budget' = budget - 1
       /\ script' = Append(script, Ev("tick", "", 0, now' - now, 0)) /\ UNCHANGED <<warm, lastEnv>>
    /\ viol' = viol \cup TimeViol(now')
    /\ UNCHANGED <<svars, pc>> /\ Same

EnvNext == EConnectOk \/ EConnectFail \/ ESendAny \/ (\E code \in TearCodes : ETeardown(code)) \/ EIncoming \/ (\E d \in Ticks : ETick(d))
           \/ (WithRemove /\ (ERemove \/ EReadd))

PNext == SysNext \/ EnvNext
PSpec == PInit /\ [][PNext]_allvars

\* ---------------------------------------------------------------------------------------
NoViolation == viol = {}
UpOnlyEstablished == apiUp => fsm = "ESTABLISHED" \/ pc \in {"t0", "t1", "f0"}
PcFsm == /\ pc \in {"m1", "m2"} => fsm = "ESTABLISHED"
         /\ pc \in {"e8", "e9", "e10"} => (fsm = "OPENCONFIRM" \/ deaf)
         /\ pc = "e6" => (fsm = "OPENSENT" \/ deaf)
PTypeOK == TypeOK /\ budget \in 0..Budget /\ deaf \in BOOLEAN

\* The view: the history is left out, and clocks are taken relative to `now` and only while the timer they feed is running
\* (an absolute or stale clock would make every state distinct and the free ticks would never stop).
Rel(t, live) == IF live /\ t >= 0 THEN now - t ELSE -1
PView == <<fsm, open, sentOpen, gotOpen, gotKA, hold, inq, fault, mayFault, closing, notified,
           Rel(lastRx, fsm = "ESTABLISHED" /\ hold > 0), Rel(lastKA, fsm = "ESTABLISHED" /\ hold > 0),
           Rel(connAt, fsm = "OPENSENT"), apiUp, tear, Rel(leftAt, TRUE),
           pc, cause, deaf, Rel(waitFrom, pc = "e6"), IF delayUntil > now THEN delayUntil - now ELSE 0, viol, budget, warm,
           IF EdgeCover /\ script # <<>> THEN <<script[Len(script)], lastEnv>> ELSE <<>> >>
=============================================================================
