SPECIFICATION GenSpec
CONSTANT Width = 1
INVARIANT PeerBytesParse
INVARIANT NoOneSidedAddPath
CHECK_DEADLOCK FALSE
