-------------------------- MODULE Gen_ExaUpdateFault --------------------------
(* Table enumeration for C08: every well-formed abstract UPDATE within Width changes of a base that announces routes, with
   exactly one attribute corrupted in one of the forms of ExaUpdateIn!FaultForms. *)
EXTENDS ExaUpdateIn

CONSTANT Width
VARIABLES u, bytes
RECURSIVE Vary(_, _)
Vary(R, k) == IF k = 0 THEN R
              ELSE Vary(R \cup UNION {UNION {{[r EXCEPT ![f] = v] : v \in Dom[f]} : f \in Fields} : r \in R}, k - 1)
Good == {r \in Vary(Bases, Width) : WellFormed(r) /\ HasAnnounce(r)}
Rows == UNION {{[r EXCEPT !.fault = <<n, f>>] : <<n, f>> \in {x \in FaultNames \X FaultForms : Applicable(r, x)}} : r \in Good}
GenInit == u \in Rows /\ bytes = Bytes(u)
GenNext == UNCHANGED <<u, bytes>>
GenSpec == GenInit /\ [][GenNext]_<<u, bytes>>
\* the corrupted message still has a consistent outer structure (the fault is confined to one attribute)
OuterStructureOK == DecUpdateBody(Drop(bytes, 19)).ok /\ Len(bytes) <= 4096
=============================================================================
