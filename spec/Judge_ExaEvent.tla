---------------------------- MODULE Judge_ExaEvent ----------------------------
EXTENDS ExaEvent, Json, IOUtils
Tr == ndJsonDeserialize(IOEnv.TRACE_FILE)
JU(j) == [kind |-> j.kind, pay |-> j.pay, enc |-> j.enc, version |-> j.version, mode |-> j.mode]
VARIABLES l, bad
JInit == l = 1 /\ bad = <<>>
JNext == /\ l <= Len(Tr) /\ l' = l + 1
         /\ LET v == WellFormed(JU(Tr[l].u), Tr[l]) IN bad' = IF v = {} THEN bad ELSE Append(bad, [line |-> l, id |-> Tr[l].id, clauses |-> v])
JSpec == JInit /\ [][JNext]_<<l, bad>>
Report == (l = Len(Tr) + 1) => PrintT(<<"VERIF", "verdict", Len(Tr), ToJsonArray(bad)>>)
=============================================================================
