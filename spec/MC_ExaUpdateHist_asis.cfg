SPECIFICATION Spec
CONSTANTS
  Sessions = {"asn4", "asn2", "asn4a"}
  Msgs <- MCMsgs
  SessDep <- MCSessDep
  KeyIncludesSession = FALSE
  KeyByAddress = FALSE
  MaxLen = 3
INVARIANT HistoryFree
CHECK_DEADLOCK FALSE
