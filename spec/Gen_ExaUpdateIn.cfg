SPECIFICATION GenSpec
CONSTANT Width = 1
INVARIANT CodecSelfCheck
CHECK_DEADLOCK FALSE
