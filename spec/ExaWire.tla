------------------------------- MODULE ExaWire -------------------------------
(***************************************************************************)
(* Byte-level reference codec for the BGP wire formats the listed           *)
(* properties talk about, written from the RFCs (4271, 4760, 6793, 7911,     *)
(* 8277, 4364, 8950, 9072, 5492, 2918, 7313, 8654, 7606) and never from       *)
(* ExaBGP.  Operators only, no variables: this is the independent oracle      *)
(* wherever bytes matter.                                                    *)
(*                                                                         *)
(* Bytes are Seq(0..255).  Values that do not fit TLC's 32-bit integers       *)
(* (AS numbers, MED, ...) are byte tuples: an ASN is <<b1,b2,b3,b4>>.          *)
(***************************************************************************)
EXTENDS Integers, Sequences, FiniteSets, TLC

Byte == 0..255
U8(n)  == <<n % 256>>
U16(n) == <<(n \div 256) % 256, n % 256>>
U32(n) == <<(n \div 16777216) % 256, (n \div 65536) % 256, (n \div 256) % 256, n % 256>>   \* n < 2^31
N16(b) == b[1] * 256 + b[2]
Rep(x, n) == [i \in 1..n |-> x]
Drop(s, n) == IF n >= Len(s) THEN <<>> ELSE SubSeq(s, n + 1, Len(s))
Take(s, n) == IF n >= Len(s) THEN s ELSE SubSeq(s, 1, n)
RECURSIVE Flat(_)
Flat(ss) == IF ss = <<>> THEN <<>> ELSE Head(ss) \o Flat(Tail(ss))

\* an AS number given as <<hi16, lo16>>
Asn4Bytes(a) == U16(a[1]) \o U16(a[2])
AsTrans == <<0, 23456>>
Asn2Bytes(a) == IF a[1] = 0 THEN U16(a[2]) ELSE U16(23456)        \* RFC 6793: AS_TRANS in 2-byte fields

Marker == Rep(255, 16)
Msg(type, body) == Marker \o U16(19 + Len(body)) \o <<type>> \o body

\* ---------------------------------------------------------------------------------------
\* OPEN (RFC 4271 4.2, RFC 5492 capabilities, RFC 9072 extended optional parameters)

Cap(code, val) == <<code, Len(val)>> \o val
CapMP(afi, safi) == Cap(1, U16(afi) \o <<0, safi>>)
CapRR == Cap(2, <<>>)
CapERR == Cap(70, <<>>)
CapExtMsg == Cap(6, <<>>)
CapAsn4(a) == Cap(65, Asn4Bytes(a))
CapAddPath(entries) == Cap(69, Flat([i \in 1..Len(entries) |-> U16(entries[i][1]) \o <<entries[i][2], entries[i][3]>>]))
CapExtNH(entries) == Cap(5, Flat([i \in 1..Len(entries) |-> U16(entries[i][1]) \o U16(entries[i][2]) \o U16(entries[i][3])]))

\* optional parameters: one capability parameter (type 2) per capability, or all capabilities in one parameter
Params(caps, onePer) ==
    IF onePer THEN Flat([i \in 1..Len(caps) |-> <<2, Len(caps[i])>> \o caps[i]])
    ELSE IF caps = <<>> THEN <<>> ELSE <<2, Len(Flat(caps))>> \o Flat(caps)
ParamsExt(caps) ==               \* RFC 9072: 3-byte parameter headers
    Flat([i \in 1..Len(caps) |-> <<2>> \o U16(Len(caps[i])) \o caps[i]])

EncOpen(version, asn, hold, rid, caps, form) ==     \* form in {"one", "each", "ext"}
    LET fixed == <<version>> \o Asn2Bytes(asn) \o U16(hold) \o rid
        body == IF form = "ext"
                THEN fixed \o <<255, 255>> \o U16(Len(ParamsExt(caps))) \o ParamsExt(caps)
                ELSE LET p == Params(caps, form = "each") IN fixed \o <<Len(p)>> \o p
    IN Msg(1, body)

\* decoding: capability TLV walk; "bad" when a length overruns
RECURSIVE DecCaps(_)
DecCaps(b) ==          \* -> [ok, caps: Seq([code, val])]
    IF b = <<>> THEN [ok |-> TRUE, caps |-> <<>>]
    ELSE IF Len(b) < 2 \/ Len(b) < 2 + b[2] THEN [ok |-> FALSE, caps |-> <<>>]
    ELSE LET r == DecCaps(Drop(b, 2 + b[2]))
         IN [ok |-> r.ok, caps |-> <<[code |-> b[1], val |-> SubSeq(b, 3, 2 + b[2])]>> \o r.caps]

RECURSIVE DecParams(_, _)
DecParams(b, ext) ==   \* -> [ok, caps]   (parameters of a type other than 2 are skipped)
    IF b = <<>> THEN [ok |-> TRUE, caps |-> <<>>]
    ELSE LET h == IF ext THEN 3 ELSE 2 IN
         IF Len(b) < h THEN [ok |-> FALSE, caps |-> <<>>]
         ELSE LET ln == IF ext THEN N16(<<b[2], b[3]>>) ELSE b[2] IN
              IF Len(b) < h + ln THEN [ok |-> FALSE, caps |-> <<>>]
              ELSE LET here == IF b[1] = 2 THEN DecCaps(SubSeq(b, h + 1, h + ln)) ELSE [ok |-> TRUE, caps |-> <<>>]
                       rest == DecParams(Drop(b, h + ln), ext)
                   IN [ok |-> here.ok /\ rest.ok, caps |-> here.caps \o rest.caps]

DecOpen(body) ==       \* body = OPEN without the 19-byte header
    IF Len(body) < 10 THEN [ok |-> FALSE]
    ELSE LET optlen == body[10] IN
         IF optlen = 255 /\ Len(body) >= 13 /\ body[11] = 255
         THEN LET el == N16(<<body[12], body[13]>>) IN
              IF Len(body) # 13 + el THEN [ok |-> FALSE]
              ELSE LET p == DecParams(Drop(body, 13), TRUE)
                   IN [ok |-> p.ok, version |-> body[1], as2 |-> N16(<<body[2], body[3]>>), hold |-> N16(<<body[4], body[5]>>),
                       rid |-> SubSeq(body, 6, 9), caps |-> p.caps, ext |-> TRUE]
         ELSE IF Len(body) # 10 + optlen THEN [ok |-> FALSE]
         ELSE LET p == DecParams(Drop(body, 10), FALSE)
              IN [ok |-> p.ok, version |-> body[1], as2 |-> N16(<<body[2], body[3]>>), hold |-> N16(<<body[4], body[5]>>),
                  rid |-> SubSeq(body, 6, 9), caps |-> p.caps, ext |-> FALSE]

\* reading capability sets out of a decoded OPEN
CapVals(o, code) == {o.caps[i].val : i \in {j \in 1..Len(o.caps) : o.caps[j].code = code}}
HasCap(o, code) == CapVals(o, code) # {}
OpenFamilies(o) == {<<N16(<<v[1], v[2]>>), v[4]>> : v \in {w \in CapVals(o, 1) : Len(w) = 4}}
OpenAsn4(o) == IF HasCap(o, 65) THEN LET v == CHOOSE w \in CapVals(o, 65) : TRUE IN <<N16(<<v[1], v[2]>>), N16(<<v[3], v[4]>>)>> ELSE <<0, 0>>
RECURSIVE Quads(_)
Quads(v) == IF Len(v) < 4 THEN {} ELSE {<<N16(<<v[1], v[2]>>), v[3], v[4]>>} \cup Quads(Drop(v, 4))
OpenAddPath(o) == UNION {Quads(v) : v \in CapVals(o, 69)}          \* set of <<afi, safi, mode>>
RECURSIVE Sixes(_)
Sixes(v) == IF Len(v) < 6 THEN {} ELSE {<<N16(<<v[1], v[2]>>), N16(<<v[3], v[4]>>), N16(<<v[5], v[6]>>)>>} \cup Sixes(Drop(v, 6))
OpenExtNH(o) == UNION {Sixes(v) : v \in CapVals(o, 5)}              \* set of <<nlri afi, nlri safi, nexthop afi>>

\* ---------------------------------------------------------------------------------------
\* UPDATE (RFC 4271 4.3; RFC 4760 MP_REACH/MP_UNREACH; RFC 7911 path identifiers; RFC 6793 AS paths)

\* a prefix is [bits, bytes (ceil(bits/8) of them), pid (-1 = none)]
PfxBytes(p, addpath) == (IF addpath THEN U32(IF p.pid < 0 THEN 0 ELSE p.pid) ELSE <<>>) \o <<p.bits>> \o p.bytes
RECURSIVE EncPrefixes(_, _)
EncPrefixes(ps, addpath) == IF ps = <<>> THEN <<>> ELSE PfxBytes(Head(ps), addpath) \o EncPrefixes(Tail(ps), addpath)

RECURSIVE DecPrefixes(_, _)
DecPrefixes(b, addpath) ==           \* -> [ok, ps]
    IF b = <<>> THEN [ok |-> TRUE, ps |-> <<>>]
    ELSE LET h == IF addpath THEN 4 ELSE 0 IN
         IF Len(b) < h + 1 THEN [ok |-> FALSE, ps |-> <<>>]
         ELSE LET bits == b[h + 1]
                  n == (bits + 7) \div 8
              IN IF Len(b) < h + 1 + n THEN [ok |-> FALSE, ps |-> <<>>]
                 ELSE LET pid == IF addpath THEN ((b[1] % 128) * 16777216 + b[2] * 65536 + b[3] * 256 + b[4]) ELSE -1
                          r == DecPrefixes(Drop(b, h + 1 + n), addpath)
                      IN [ok |-> r.ok, ps |-> <<[bits |-> bits, bytes |-> SubSeq(b, h + 2, h + 1 + n), pid |-> pid]>> \o r.ps]

\* path attribute TLV: extended length when the value needs it or when forced
Attr(flags, code, val, forceExt) ==
    IF Len(val) > 255 \/ forceExt
    THEN <<(flags \div 32) * 32 + 16 + (flags % 16), code>> \o U16(Len(val)) \o val
    ELSE <<(flags \div 32) * 32 + (flags % 16), code, Len(val)>> \o val

RECURSIVE DecAttrs(_)
DecAttrs(b) ==                       \* -> [ok, items: Seq([flags, code, val])]; ok = FALSE when a length overruns the block
    IF b = <<>> THEN [ok |-> TRUE, items |-> <<>>]
    ELSE IF Len(b) < 3 THEN [ok |-> FALSE, items |-> <<>>]
    ELSE LET ext == (b[1] \div 16) % 2 = 1
             h == IF ext THEN 4 ELSE 3
         IN IF Len(b) < h THEN [ok |-> FALSE, items |-> <<>>]
            ELSE LET ln == IF ext THEN N16(<<b[3], b[4]>>) ELSE b[3] IN
                 IF Len(b) < h + ln THEN [ok |-> FALSE, items |-> <<>>]
                 ELSE LET r == DecAttrs(Drop(b, h + ln))
                      IN [ok |-> r.ok, items |-> <<[flags |-> b[1], code |-> b[2], val |-> SubSeq(b, h + 1, h + ln)]>> \o r.items]

\* AS_PATH value: segments [t (1 = AS_SET, 2 = AS_SEQUENCE), asns: Seq(ASN)]
RECURSIVE EncAsns(_, _)
EncAsns(as, four) == IF as = <<>> THEN <<>> ELSE (IF four THEN Asn4Bytes(Head(as)) ELSE Asn2Bytes(Head(as))) \o EncAsns(Tail(as), four)
RECURSIVE EncSegs(_, _)
EncSegs(segs, four) == IF segs = <<>> THEN <<>> ELSE <<Head(segs).t, Len(Head(segs).asns)>> \o EncAsns(Head(segs).asns, four) \o EncSegs(Tail(segs), four)

\* RFC 6793 4.2.3: reconstruct the AS path from AS_PATH (2-byte, with AS_TRANS) and AS4_PATH
\* (an AS_SET counts for one AS number; AS_CONFED_SEQUENCE (3) and AS_CONFED_SET (4) segments are not counted)
PathLen(segs) == LET F[i \in 0..Len(segs)] == IF i = 0 THEN 0 ELSE F[i-1] + (IF segs[i].t = 1 THEN 1 ELSE IF segs[i].t = 2 THEN Len(segs[i].asns) ELSE 0) IN F[Len(segs)]
\* keep the leading (PathLen(p2) - PathLen(p4)) AS numbers of p2, then append p4
RECURSIVE TakeLeading(_, _)
TakeLeading(segs, n) ==
    \* "a valid AS_CONFED_SEQUENCE or AS_CONFED_SET path segment SHALL be prepended if it is either the leading path segment
    \* or is adjacent to a path segment that is prepended": here only while AS numbers are still owed (n > 0), which is all
    \* the rows of the tables exercise
    IF n <= 0 \/ segs = <<>> THEN <<>>
    ELSE LET s == Head(segs) IN
         IF s.t \in {3, 4} THEN <<s>> \o TakeLeading(Tail(segs), n)
         ELSE IF s.t = 1 THEN <<s>> \o TakeLeading(Tail(segs), n - 1)
         ELSE IF Len(s.asns) <= n THEN <<s>> \o TakeLeading(Tail(segs), n - Len(s.asns))
         ELSE <<[t |-> 2, asns |-> SubSeq(s.asns, 1, n)]>>
MergeAsPath(p2, p4) ==
    IF PathLen(p2) < PathLen(p4) THEN p2          \* AS4_PATH ignored
    ELSE TakeLeading(p2, PathLen(p2) - PathLen(p4)) \o p4

EncUpdateBody(wd, attrs, nlri) == U16(Len(wd)) \o wd \o U16(Len(attrs)) \o attrs \o nlri
DecUpdateBody(b) ==                  \* RFC 4271 6.3 length checks
    IF Len(b) < 4 THEN [ok |-> FALSE]
    ELSE LET wl == N16(<<b[1], b[2]>>) IN
         IF Len(b) < 4 + wl THEN [ok |-> FALSE]
         ELSE LET al == N16(<<b[3 + wl], b[4 + wl]>>) IN
              IF Len(b) < 4 + wl + al THEN [ok |-> FALSE]
              ELSE [ok |-> TRUE, wd |-> SubSeq(b, 3, 2 + wl), attrs |-> SubSeq(b, 5 + wl, 4 + wl + al), nlri |-> Drop(b, 4 + wl + al)]
=============================================================================
