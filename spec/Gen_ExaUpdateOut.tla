--------------------------- MODULE Gen_ExaUpdateOut ---------------------------
(* Table enumeration for C01: rows (route, session) within Width field changes of five base rows. *)
EXTENDS ExaUpdateOut
CONSTANT Width
VARIABLES u, bytes
RECURSIVE Vary(_, _)
Vary(R, k) == IF k = 0 THEN R
              ELSE Vary(R \cup UNION {UNION {{[r EXCEPT ![f] = v] : v \in Dom[f]} : f \in Fields} : r \in R}, k - 1)
Rows == {r \in Vary(Bases, Width) : WellFormed(r)}
GenInit == u \in Rows /\ bytes = <<>>
GenNext == UNCHANGED <<u, bytes>>
GenSpec == GenInit /\ [][GenNext]_<<u, bytes>>
\* sanity of the table: AS4_PATH is expected exactly when a 2-byte peer gets a path with a large AS number
TableOK == (ExpAttr(u, 17) # Absent) = (~u.pasn4 /\ HasLarge(ExpPath(u)))
=============================================================================
