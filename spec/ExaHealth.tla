------------------------------ MODULE ExaHealth ------------------------------
(***************************************************************************)
(* C20: the healthcheck helper (application/healthcheck.py, loop()/one()).   *)
(* One action per loop iteration: Round(ok, disabled) -- the check result     *)
(* and whether the disable file exists -- and Exit.  `out` is what the        *)
(* iteration writes: for every configured IP one command, abstracted to       *)
(* <<verb, ip index, metric, community tag, as-path tag>>.                    *)
(*                                                                         *)
(* The hysteresis properties are stated over `run`, the history of check      *)
(* results, independently of the automaton's own counter:                     *)
(*   RiseHysteresis  the "up" announcement starts only when the last `Rise`   *)
(*                   results were all successes                               *)
(*   FallHysteresis  the "down" announcement / withdrawal starts only when    *)
(*                   the last `Fall` results were all failures                *)
(*   NoFlipOnSingle  follows from the two when Rise, Fall > 1                 *)
(*   WithdrawOnExit  Exit withdraws every IP                                  *)
(***************************************************************************)
EXTENDS Naturals, Sequences, FiniteSets, TLC

CONSTANTS Rise, Fall, WithdrawOnDown, Debounce, NIps, MaxRounds,
          UpMetric, DownMetric, DisabledMetric, Increase

VARIABLES state,      \* INIT RISING UP FALLING DOWN DISABLED EXIT
          checks,     \* the automaton's counter
          announced,  \* what the peers currently hold because of us: "none" | "up" | "down" | "disabled" | "withdrawn"
          run,        \* history of check results (TRUE = success), reset by a disabled period
          out,        \* commands written by the last step
          hist        \* inputs so far: script for the harness

vars == <<state, checks, announced, run, out, hist>>

MetricOf(s) == CASE s = "UP" -> UpMetric [] s = "DOWN" -> DownMetric [] s = "DISABLED" -> DisabledMetric [] OTHER -> 0
TagOf(s) == CASE s = "UP" -> "up" [] s = "DOWN" -> "down" [] s = "DISABLED" -> "disabled" [] OTHER -> "none"
\* the commands for a state: one per IP, metric increased per IP; withdraw instead of announce for DOWN/DISABLED with --withdraw-on-down
Emits(s) ==
    IF s \notin {"UP", "DOWN", "DISABLED", "EXIT"} THEN <<>>
    ELSE [i \in 1..NIps |->
            IF s = "EXIT" \/ (WithdrawOnDown /\ s # "UP")
            THEN <<"withdraw", i, 0, "none">>
            ELSE <<"announce", i, MetricOf(s) + (i - 1) * Increase, TagOf(s)>>]

Target(t) == IF t = "RISING" /\ Rise <= 1 THEN "UP" ELSE IF t = "FALLING" /\ Fall <= 1 THEN "DOWN" ELSE t

NextState(ok, disabled) ==      \* <<state', checks'>> : the automaton of one()
    LET succ == disabled \/ ok IN
    IF state # "DISABLED" /\ disabled THEN <<"DISABLED", checks>>
    ELSE CASE state = "INIT" -> IF succ /\ Rise <= 1 THEN <<"UP", checks>>
                                ELSE IF succ THEN <<Target("RISING"), 1>> ELSE <<Target("FALLING"), 1>>
           [] state = "DISABLED" -> IF ~disabled THEN <<"INIT", checks>> ELSE <<state, checks>>
           [] state = "RISING" -> IF succ THEN (IF checks + 1 >= Rise THEN <<"UP", checks + 1>> ELSE <<state, checks + 1>>)
                                  ELSE <<Target("FALLING"), 1>>
           [] state = "FALLING" -> IF ~succ THEN (IF checks + 1 >= Fall THEN <<"DOWN", checks + 1>> ELSE <<state, checks + 1>>)
                                   ELSE <<Target("RISING"), 1>>
           [] state = "UP" -> IF ~succ THEN <<Target("FALLING"), 1>> ELSE <<state, checks>>
           [] state = "DOWN" -> IF succ THEN <<Target("RISING"), 1>> ELSE <<state, checks>>
           [] OTHER -> <<state, checks>>

Round(ok, disabled) ==
    /\ state # "EXIT" /\ Len(hist) < MaxRounds
    /\ LET ns == NextState(ok, disabled)
           emit == ~Debounce \/ ns[1] # state
           o == IF emit THEN Emits(ns[1]) ELSE <<>>
       IN /\ state' = ns[1] /\ checks' = ns[2]
          /\ out' = o
          /\ announced' = IF o = <<>> THEN announced
                          ELSE IF o[1][1] = "withdraw" THEN "withdrawn" ELSE TagOf(ns[1])
    /\ run' = IF disabled THEN <<>> ELSE Append(run, ok)
    /\ hist' = Append(hist, [ok |-> ok, disabled |-> disabled])

Exit ==
    /\ state # "EXIT"
    /\ state' = "EXIT" /\ out' = Emits("EXIT") /\ announced' = "withdrawn"
    /\ hist' = Append(hist, [ok |-> FALSE, disabled |-> FALSE, exit |-> TRUE])
    /\ UNCHANGED <<checks, run>>

Init == state = "INIT" /\ checks = 0 /\ announced = "none" /\ run = <<>> /\ out = <<>> /\ hist = <<>>
Next == (\E ok \in BOOLEAN, d \in BOOLEAN : Round(ok, d)) \/ Exit
Spec == Init /\ [][Next]_vars

LastN(n, v) == Len(run) >= n /\ \A i \in (Len(run) - n + 1)..Len(run) : run[i] = v
\* on the step where the up announcement starts, the last Rise results are successes (action property over run')
RiseHysteresis == [][(announced' = "up" /\ announced # "up") => (Len(run') >= Rise /\ \A i \in (Len(run') - Rise + 1)..Len(run') : run'[i])]_vars
FallHysteresis == [][(state' = "DOWN" /\ state # "DOWN" /\ out' # <<>>)
                        => (Len(run') >= Fall /\ \A i \in (Len(run') - Fall + 1)..Len(run') : ~run'[i])]_vars
WithdrawOnExit == state = "EXIT" => (announced = "withdrawn" /\ \A i \in 1..NIps : out[i][1] = "withdraw")
=============================================================================
