----------------------------- MODULE ExaRobust -----------------------------
(***************************************************************************)
(* C03: no peer input can crash or wedge the speaker.                       *)
(*                                                                         *)
(* A row names a message body: a well-formed base (`shape`, at a `scale`)    *)
(* damaged by `mut` (or left alone), decoded under the session parameters    *)
(* `neg`.  The harness builds the bytes, runs the real Message.unpack, forces *)
(* every lazy part (UPDATE parse, str(), json(), both API encoders) and       *)
(* reports the outcome with the number of Python calls made and the deepest   *)
(* call stack reached.  Allowed says what the property permits.               *)
(***************************************************************************)
EXTENDS Naturals, Sequences, FiniteSets, TLC

Shapes == [
  open    |-> {"open-plain", "open-many-caps", "open-one-param-per-cap", "open-rfc9072", "open-cap-repeated"},
  update  |-> {"upd-plain", "upd-unknown-attrs", "upd-unknown-nontransitive", "upd-communities", "upd-aspath-segments", "upd-nlri", "upd-withdraws",
               "upd-mp-nlri", "upd-one-big-attr", "upd-eor", "upd-repeated-attr"},
  notif   |-> {"notif-plain", "notif-data"},
  ka      |-> {"ka"},
  refresh |-> {"rr-plain", "rr-bor"},
  oper    |-> {"oper-adm", "oper-unknown"} ]
TypeOf == [open |-> 1, update |-> 2, notif |-> 3, ka |-> 4, refresh |-> 5, oper |-> 6]
AllShapes == UNION {Shapes[k] : k \in DOMAIN Shapes}
KindOf(s) == CHOOSE k \in DOMAIN Shapes : s \in Shapes[k]
\* how many repeated elements: a handful, hundreds, as many as a 4096-byte message holds, as many as a 65535-byte one holds
Scales == {"few", "hundreds", "fill4k", "fill64k"}
Scalable == {"open-many-caps", "open-one-param-per-cap", "open-rfc9072", "open-cap-repeated", "upd-unknown-attrs", "upd-unknown-nontransitive", "upd-communities",
             "upd-aspath-segments", "upd-nlri", "upd-withdraws", "upd-mp-nlri", "upd-one-big-attr", "upd-repeated-attr", "notif-data", "oper-adm", "oper-unknown"}
Negs == {"min", "typ", "ext"}     \* 2-byte AS, IPv4 only / 4-byte AS + ADD-PATH, IPv4 + IPv6 / the same with extended messages (65535)
\* damages: none; cut after k bytes (k from either end); one byte forced to 0x00 / 0xFF at one of the first 48 offsets; junk appended; seeded random damage;
\* the whole body replaced by seeded random bytes
Mu(m, p, v) == [m |-> m, p |-> p, v |-> v]
Cuts == {"cut0", "cut1", "cut2", "cut3", "cut-half", "cut-last1", "cut-last2"}
Muts(Seeds) == {Mu(m, 0, 0) : m \in {"none", "append1", "append-many"} \cup Cuts}
        \cup {Mu("byte", p, v) : p \in 0..47, v \in {0, 255}}
        \cup {Mu("flip", s, 0) : s \in Seeds} \cup {Mu("random", s, 0) : s \in Seeds}
BigMuts == {Mu("none", 0, 0), Mu("cut-half", 0, 0), Mu("cut-last1", 0, 0), Mu("byte", 0, 255), Mu("byte", 3, 255)}
\* Seeds = 1..n: how many seeded random damages per base
Rows(Seeds) == {r \in [shape : AllShapes, scale : Scales, neg : Negs, mut : Muts(Seeds), idx : {0}] :
           /\ (r.shape \notin Scalable => r.scale = "few")
           /\ (r.scale = "fill64k" => r.neg = "ext")                       \* such a message only fits an extended-message session
           /\ (r.scale \in {"fill4k", "fill64k"} => r.mut \in BigMuts)        \* the big ones: a few damages only
           /\ ~(KindOf(r.shape) = "open" /\ r.scale = "fill64k")}            \* an OPEN is at most 4096 bytes
\* messages ExaBGP's own test corpus holds (qa/encoding raw lines, qa/decoding): every family and attribute the project has examples of,
\* decoded under a session with every family, 4-byte AS, no ADD-PATH; they are damaged like the others.  idx = 0 for the rows above.
CorpusRows(Seeds, n) == {[shape |-> "corpus", scale |-> "few", neg |-> "all", mut |-> m, idx |-> i] : i \in 1..n, m \in Muts(Seeds)}
\* a row whose message is valid per the RFCs (however unusual): it must decode.  Corpus messages are not claimed valid (some need ADD-PATH).
Valid(r) == r.mut.m = "none" /\ r.shape # "corpus"

\* NOTIFICATION error codes a refusal may carry: 1 header, 2 OPEN, 3 UPDATE, 4 hold timer, 5 FSM, 6 cease (RFC 4271 4.5), 7 ROUTE-REFRESH (RFC 7313).
\* The property asks for a defined error *code*; the choice of subcode is C06/C07/C08's business.
DefinedCodes == 1..7

\* cost bound: linear in the size of the body.  CallBase covers the fixed work (imports warmed, envelope, two encoders);
\* CallPerByte the work per byte: the densest legal input (three-byte attributes, one-byte prefixes) costs a few dozen calls per element.
CallBase == 6000
CallPerByte == 60
MaxStack == 40             \* frames above the harness: decoding nests by structure (about 15 deep), never by element count

Chk(name, ok) == IF ok THEN {} ELSE {name}
Allowed(r, j) ==
    Chk("C03-decoding-raised-something-other-than-a-notification", j.kind # "exception")
    \cup Chk("C03-decoding-recursed-without-bound", j.kind # "recursion" /\ j.stack <= MaxStack)
    \cup Chk("C03-refused-with-an-undefined-notification-code", j.kind = "notify" => j.code \in DefinedCodes)
    \cup Chk("C03-valid-message-was-refused", Valid(r) => j.kind = "decoded")
    \cup Chk("C03-decoding-cost-not-proportional-to-the-message-size", j.calls <= CallBase + CallPerByte * j.size)
=============================================================================
