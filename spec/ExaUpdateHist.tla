---------------------------- MODULE ExaUpdateHist ----------------------------
(***************************************************************************)
(* C19: decoding does not depend on what was decoded before.                 *)
(* The process-wide "last attribute block" cache of                          *)
(* AttributeCollection.unpack (attribute/collection.py), shared by every      *)
(* session: when the raw attribute bytes of an UPDATE equal those of the      *)
(* previous one the previously built collection is returned; blocks with MP   *)
(* attributes or a treat-as-withdraw decision are not cached.                 *)
(*                                                                         *)
(* Messages are abstract: `blk` names the attribute bytes, `mp` says the      *)
(* block carries MP_REACH/MP_UNREACH, `taw` that it is treat-as-withdraw,     *)
(* and Decode(blk, s) is what the bytes mean on session s (a block whose      *)
(* meaning depends on the negotiated parameters has SessDep).                *)
(* HistoryFree: what Receive returns is Decode(blk, s), whatever came         *)
(* before, on whichever session.                                             *)
(***************************************************************************)
EXTENDS Naturals, Sequences, FiniteSets, TLC

CONSTANTS Sessions,          \* e.g. {"asn4", "asn2"}
          Msgs,              \* records [id, blk, mp, taw]
          SessDep,           \* set of blk whose decoding depends on the session
          KeyIncludesSession,\* TRUE = intended; FALSE = the cache is keyed on the raw bytes only (C19 finding)
          KeyByAddress,      \* FALSE = intended: the key is the session OBJECT (kept alive by the cache); TRUE = the key is
                             \* the address of that object, which a later session may be given once the first is closed
          MaxLen

VARIABLES prev,   \* <<blk, session, address, incarnation>> of the cached block, or <<"none", "none", "none", 0>>
          hist,   \* sequence of <<session, msg id>> received or <<"swap", "s1-s2">> so far (script for the harness)
          last,   \* [got, want] of the last Receive
          addr,   \* where the object of each session lives
          inc     \* how many times each session was closed and opened again

vars == <<prev, hist, last, addr, inc>>

Decode(blk, s) == IF blk \in SessDep THEN <<blk, s>> ELSE <<blk, "any">>

Receive(s, m) ==
    /\ Len(hist) < MaxLen
    /\ LET hit == prev[1] = m.blk /\ (KeyIncludesSession => IF KeyByAddress THEN prev[3] = addr[s] ELSE (prev[2] = s /\ prev[4] = inc[s]))
           got == IF hit THEN Decode(prev[1], prev[2]) ELSE Decode(m.blk, s)
       IN /\ last' = [got |-> got, want |-> Decode(m.blk, s)]
          /\ prev' = IF m.mp \/ m.taw THEN (IF m.taw THEN prev ELSE <<"none", "none">>)
                     ELSE IF hit THEN prev ELSE <<m.blk, s, addr[s], inc[s]>>
    /\ hist' = Append(hist, <<s, m.id>>)
    /\ UNCHANGED <<addr, inc>>

\* sessions come and go: s1 and s2 are closed, and the sessions opened in their place (same parameters as before, new objects)
\* are given each other's memory.  Nothing is decoded: the cache is as it was.
Swap(s1, s2) ==
    /\ Len(hist) < MaxLen /\ s1 # s2
    /\ addr' = [addr EXCEPT ![s1] = addr[s2], ![s2] = addr[s1]]
    /\ inc' = [inc EXCEPT ![s1] = @ + 1, ![s2] = @ + 1]
    /\ hist' = Append(hist, <<"swap", <<s1, s2>>>>)
    /\ UNCHANGED <<prev, last>>

Init == /\ prev = <<"none", "none", "none", 0>> /\ hist = <<>> /\ last = [got |-> <<"none", "any">>, want |-> <<"none", "any">>]
        /\ addr = [s \in Sessions |-> s] /\ inc = [s \in Sessions |-> 0]
SwapPairs == {<<"asn4", "asn2">>, <<"asn4", "asn4a">>} \cap (Sessions \X Sessions)
Next == (\E s \in Sessions, m \in Msgs : Receive(s, m)) \/ (\E p \in SwapPairs : Swap(p[1], p[2]))
Spec == Init /\ [][Next]_vars

HistoryFree == last.got = last.want
=============================================================================
