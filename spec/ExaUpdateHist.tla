---------------------------- MODULE ExaUpdateHist ----------------------------
(***************************************************************************)
(* C19: decoding does not depend on what was decoded before.                 *)
(* The process-wide "last attribute block" cache of                          *)
(* AttributeCollection.unpack (attribute/collection.py), shared by every      *)
(* session: when the raw attribute bytes of an UPDATE equal those of the      *)
(* previous one the previously built collection is returned; blocks with MP   *)
(* attributes or a treat-as-withdraw decision are not cached.                 *)
(*                                                                         *)
(* Messages are abstract: `blk` names the attribute bytes, `mp` says the      *)
(* block carries MP_REACH/MP_UNREACH, `taw` that it is treat-as-withdraw,     *)
(* and Decode(blk, s) is what the bytes mean on session s (a block whose      *)
(* meaning depends on the negotiated parameters has SessDep).                *)
(* HistoryFree: what Receive returns is Decode(blk, s), whatever came         *)
(* before, on whichever session.                                             *)
(***************************************************************************)
EXTENDS Naturals, Sequences, FiniteSets, TLC

CONSTANTS Sessions,          \* e.g. {"asn4", "asn2"}
          Msgs,              \* records [id, blk, mp, taw]
          SessDep,           \* set of blk whose decoding depends on the session
          KeyIncludesSession,\* TRUE = intended; FALSE = the cache is keyed on the raw bytes only (C19 finding)
          MaxLen

VARIABLES prev,   \* <<blk, session>> of the cached block, or <<"none", "none">>
          hist,   \* sequence of <<session, msg id>> received so far (script for the harness)
          last    \* [got, want] of the last Receive

vars == <<prev, hist, last>>

Decode(blk, s) == IF blk \in SessDep THEN <<blk, s>> ELSE <<blk, "any">>

Receive(s, m) ==
    /\ Len(hist) < MaxLen
    /\ LET hit == prev[1] = m.blk /\ (KeyIncludesSession => prev[2] = s)
           got == IF hit THEN Decode(prev[1], prev[2]) ELSE Decode(m.blk, s)
       IN /\ last' = [got |-> got, want |-> Decode(m.blk, s)]
          /\ prev' = IF m.mp \/ m.taw THEN (IF m.taw THEN prev ELSE <<"none", "none">>)
                     ELSE IF hit THEN prev ELSE <<m.blk, s>>
    /\ hist' = Append(hist, <<s, m.id>>)

Init == prev = <<"none", "none">> /\ hist = <<>> /\ last = [got |-> <<"none", "any">>, want |-> <<"none", "any">>]
Next == \E s \in Sessions, m \in Msgs : Receive(s, m)
Spec == Init /\ [][Next]_vars

HistoryFree == last.got = last.want
=============================================================================
