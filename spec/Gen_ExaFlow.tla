----------------------------- MODULE Gen_ExaFlow -----------------------------
(* TLC enumerates FlowSpec rules: the base rules are the initial states, a step changes one field, breadth-first to depth Width
   (CONSTRAINT Bound); every state carries the RFC 8955/8956 bytes of its rule (empty when the combination is not a rule). *)
EXTENDS ExaFlow, TLC
CONSTANT Width
VARIABLES u, bytes
Out(r) == IF WellFormed(r) /\ NPad(r) >= 0 THEN EncFlow(r) \o Action(r) ELSE <<>>
GenInit == u \in Bases /\ bytes = Out(u)
GenNext == \E f \in Fields : \E v \in Dom[f] : u' = [u EXCEPT ![f] = v] /\ bytes' = Out(u')
GenSpec == GenInit /\ [][GenNext]_<<u, bytes>>
Bound == TLCGet("level") <= Width + 1
\* the length field follows the 240 rule and the padded rules hit their target exactly
TableOK == bytes # <<>> =>
           LET n == Len(Body(u)) IN
           /\ (u.pad = "n239" => n = 239) /\ (u.pad = "n240" => n = 240) /\ (u.pad = "n241" => n = 241)
           /\ (u.pad = "n255" => n = 255) /\ (u.pad = "n256" => n = 256) /\ (u.pad = "n257" => n = 257)
           /\ Len(EncFlow(u)) = n + (IF n < 240 THEN 1 ELSE 2)
=============================================================================
