----------------------------- MODULE ExaFraming -----------------------------
(***************************************************************************)
(* Reassembly of the BGP message stream from TCP segments (C06):            *)
(* reactor/network/connection.py reader_async()/reader() + the header        *)
(* checks of RFC 4271 4.1 / 6.1 (and RFC 8654 for the 65535 maximum).        *)
(*                                                                         *)
(* A stream is a sequence of message descriptors                             *)
(*    [mark |-> marker is 16 x 0xFF, len |-> declared length,                *)
(*     type |-> type octet, actual |-> bytes really present for it]          *)
(* TCP hands the bytes over in segments cut at arbitrary positions; the       *)
(* reader consumes exactly 19 bytes, judges the header, then consumes         *)
(* len - 19 bytes of body and delivers.  `Framed` says that what is           *)
(* delivered depends on the stream only, never on the cuts.                   *)
(***************************************************************************)
EXTENDS Integers, Sequences, FiniteSets, TLC

CONSTANTS MaxLens,      \* the negotiated maxima to explore, e.g. {4096, 65535}
          Alphabet,     \* message descriptor classes (records), see MC_ExaFraming
          MaxMsgs,      \* messages per stream
          MaxCuts,      \* segment boundaries per stream
          CutOffsets    \* interesting offsets inside a message at which TCP may cut

HDR == 19

\* per-type length bounds, RFC 4271 4.2-4.5, RFC 2918: the validators registered in Message.Length
TypeLenOK(type, len) ==
    CASE type = 1 -> len >= 29
      [] type = 2 -> len >= 23
      [] type = 3 -> len >= 21
      [] type = 4 -> len = 19
      [] type = 5 -> len >= 23          \* ROUTE-REFRESH is 23; RFC 7313 allows longer (ORF): only the lower bound is fixed
      [] OTHER -> TRUE

KnownType(type) == type \in 1..6        \* 6 = OPERATIONAL (draft), registered by ExaBGP

\* RFC 4271 6.1: the verdict on a header, <<0,0>> = acceptable
HeaderVerdict(m, maxLen) ==
    IF ~m.mark THEN <<1, 1>>
    ELSE IF m.len < HDR \/ m.len > maxLen THEN <<1, 2>>
    ELSE IF ~TypeLenOK(m.type, m.len) THEN <<1, 2>>
    ELSE IF ~KnownType(m.type) THEN <<1, 3>>
    ELSE <<0, 0>>

\* bytes a descriptor occupies on the wire
Size(m) == m.actual

\* the reference: what must be delivered for a stream of which `avail` bytes have arrived
RECURSIVE Expect(_, _, _)
Expect(s, avail, maxLen) ==          \* -> [out |-> Seq(<<type, len>>), err |-> <<c, s>>]
    IF s = <<>> \/ avail < HDR THEN [out |-> <<>>, err |-> <<0, 0>>]
    ELSE LET m == Head(s) v == HeaderVerdict(m, maxLen) IN
         IF v # <<0, 0>> THEN [out |-> <<>>, err |-> v]
         ELSE IF avail < m.len THEN [out |-> <<>>, err |-> <<0, 0>>]
         ELSE LET r == Expect(Tail(s), avail - m.len, maxLen)
              IN [out |-> <<<<m.type, m.len>>>> \o r.out, err |-> r.err]

RECURSIVE Total(_)
Total(s) == IF s = <<>> THEN 0 ELSE Size(Head(s)) + Total(Tail(s))

VARIABLES stream,   \* the descriptors the remote end sends
          maxLen,   \* negotiated maximum in force
          cuts,     \* strictly increasing positions at which TCP cuts the stream
          pos,      \* bytes handed over by TCP so far
          rd,       \* bytes consumed by the reader so far
          stage,    \* "hdr" | "body" | "dead"
          need,     \* bytes the reader is waiting for in this stage
          cur,      \* index of the message being read
          out,      \* delivered <<type, len>>
          err       \* header error raised, <<0,0>> none

vars == <<stream, maxLen, cuts, pos, rd, stage, need, cur, out, err>>

\* positions inside the stream where a cut is "interesting": message start + offset
RECURSIVE Starts(_, _)
Starts(s, base) == IF s = <<>> THEN <<>> ELSE <<base>> \o Starts(Tail(s), base + Size(Head(s)))
CutPositions(s) ==
    LET st == Starts(s, 0)
        cand == UNION {{st[i] + o : o \in CutOffsets} \cup {st[i] + Size(s[i]) - 1} : i \in 1..Len(s)}
    IN {p \in cand : p >= 1 /\ p <= Total(s) - 1}

\* all subsets of S with at most k elements, built constructively (SUBSET S would enumerate 2^|S| candidates)
RECURSIVE KSub(_, _)
KSub(S, k) == IF k = 0 THEN {{}} ELSE LET P == KSub(S, k - 1) IN P \cup {C \cup {x} : C \in P, x \in S}

Streams == UNION {[1..n -> Alphabet] : n \in 1..MaxMsgs}

Init ==
    /\ stream \in Streams
    /\ maxLen \in MaxLens
    /\ cuts \in KSub(CutPositions(stream), MaxCuts)
    /\ pos = 0 /\ rd = 0 /\ stage = "hdr" /\ need = HDR /\ cur = 1 /\ out = <<>> /\ err = <<0, 0>>

\* TCP hands over the next segment (up to the next cut, or the end)
Segment ==
    /\ pos < Total(stream)
    /\ LET nxt == {c \in cuts : c > pos} IN
       pos' = IF nxt = {} THEN Total(stream) ELSE CHOOSE c \in nxt : \A d \in nxt : c <= d
    /\ UNCHANGED <<stream, maxLen, cuts, rd, stage, need, cur, out, err>>

\* the reader obtained the bytes it was waiting for
Read ==
    /\ stage # "dead" /\ cur <= Len(stream) /\ pos - rd >= need
    /\ rd' = rd + need
    /\ IF stage = "hdr"
       THEN LET v == HeaderVerdict(stream[cur], maxLen) IN
            IF v # <<0, 0>>
            THEN /\ stage' = "dead" /\ err' = v /\ UNCHANGED <<need, cur, out>>
            ELSE IF stream[cur].len = HDR
            THEN /\ out' = Append(out, <<stream[cur].type, stream[cur].len>>)
                 /\ cur' = cur + 1 /\ UNCHANGED <<stage, need, err>>
            ELSE /\ stage' = "body" /\ need' = stream[cur].len - HDR /\ UNCHANGED <<cur, out, err>>
       ELSE /\ out' = Append(out, <<stream[cur].type, stream[cur].len>>)
            /\ stage' = "hdr" /\ need' = HDR /\ cur' = cur + 1 /\ UNCHANGED err
    /\ UNCHANGED <<stream, maxLen, cuts, pos>>

Next == Segment \/ Read
Spec == Init /\ [][Next]_vars

\* C06: at every moment what has been delivered (and the error raised) is the reference's verdict on the bytes the
\* reader has consumed so far -- whatever the segmentation
Framed ==
    LET e == Expect(stream, rd, maxLen) IN
    /\ out = e.out
    /\ (stage = "dead") = (err # <<0, 0>>)
    /\ err # <<0, 0>> => err = e.err
\* once everything has arrived and the reader is idle, nothing is left undelivered
Complete ==
    (pos = Total(stream) /\ ~ENABLED Read) =>
        LET e == Expect(stream, Total(stream), maxLen) IN out = e.out /\ err = e.err

Done == pos = Total(stream) /\ ~ENABLED Read
=============================================================================
