SPECIFICATION TraceSpec
CONSTANTS
  G = 1250
  OpenWait = 60000
INVARIANT TypeOK
INVARIANT Report
CHECK_DEADLOCK FALSE
