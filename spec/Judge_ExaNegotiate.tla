-------------------------- MODULE Judge_ExaNegotiate --------------------------
(* C07 verdicts: one line per row the harness executed on the real code:
   [id, row, our: bytes of the OPEN ExaBGP built (without header), roundtrip, refused: <<c,s>> or <<0,0>>, neg: [...]] *)
EXTENDS ExaNegotiate, Json, IOUtils
Tr == ndJsonDeserialize(IOEnv.TRACE_FILE)
SetOf(s) == {s[i] : i \in 1..Len(s)}
JRow(j) == \* rebuild the row from its JSON form (sets arrive as sequences, tuples as sequences)
    [fams |-> {<<x[1], x[2]>> : x \in SetOf(j.fams)}, localAs |-> <<j.localAs[1], j.localAs[2]>>, ibgp |-> j.ibgp, asn4 |-> j.asn4,
     addpath |-> j.addpath, extmsg |-> j.extmsg, rr |-> j.rr, hold |-> j.hold, big |-> j.big,
     pVersion |-> j.pVersion, pAsOk |-> j.pAsOk, pAsn4 |-> j.pAsn4, pFams |-> {<<x[1], x[2]>> : x \in SetOf(j.pFams)},
     pAddpath |-> j.pAddpath, pExtmsg |-> j.pExtmsg, pRR |-> j.pRR, pHold |-> j.pHold,
     pRid |-> <<j.pRid[1], j.pRid[2], j.pRid[3], j.pRid[4]>>, pForm |-> j.pForm, pDup |-> j.pDup, pUnknown |-> j.pUnknown]

Uni(S) == {f \in S : f[2] = 1}      \* unicast families (ADD-PATH for multicast is not constrained)
NegViol(r, n) ==
    LET e == Negotiate(r) IN
       (IF {<<x[1], x[2]>> : x \in SetOf(n.families)} = e.families THEN {} ELSE {"C07-families-are-not-the-intersection"})
  \cup (IF n.asn4 = e.asn4 THEN {} ELSE {"C07-four-byte-as-use"})
  \cup (IF <<n.localAs[1], n.localAs[2]>> = e.localAs THEN {} ELSE {"C07-local-as-is-not-the-true-as"})
  \cup (IF <<n.peerAs[1], n.peerAs[2]>> = e.peerAs THEN {} ELSE {"C07-peer-as-is-not-the-true-as"})
  \cup (IF Uni({<<x[1], x[2]>> : x \in SetOf(n.apSend)}) = Uni(e.apSend) /\ {<<x[1], x[2]>> : x \in SetOf(n.apSend)} \subseteq e.apSend
        THEN {} ELSE {"C07-add-path-send"})
  \cup (IF Uni({<<x[1], x[2]>> : x \in SetOf(n.apRecv)}) = Uni(e.apRecv) /\ {<<x[1], x[2]>> : x \in SetOf(n.apRecv)} \subseteq e.apRecv
        THEN {} ELSE {"C07-add-path-receive"})
  \cup (IF n.msgSize = e.msgSize THEN {} ELSE {"C07-maximum-message-size"})
  \cup (IF n.refresh = e.refresh THEN {} ELSE {"C07-route-refresh-flavour"})
  \cup (IF n.hold = e.hold THEN {} ELSE {"C07-hold-time-is-not-the-minimum"})

LineViol(j) ==
    LET r == JRow(j.row)
        ref == Refusals(r)
        got == <<j.refused[1], j.refused[2]>>
    IN OurOpenViol(r, DecOpen(j.our))
       \cup (IF j.roundtrip THEN {} ELSE {"C07-our-open-does-not-survive-encode-decode"})
       \cup (IF ref = {} THEN (IF got = <<0, 0>> THEN (IF r.big THEN {} ELSE NegViol(r, j.neg)) ELSE {"C07-acceptable-open-refused"})
             ELSE IF got \in ref THEN {} ELSE IF got = <<0, 0>> THEN {"C07-open-that-must-be-refused-was-accepted"}
             ELSE {"C07-refused-with-the-wrong-subcode"})

VARIABLES l, bad
JInit == l = 1 /\ bad = <<>>
JNext == /\ l <= Len(Tr) /\ l' = l + 1
         /\ LET v == LineViol(Tr[l]) IN bad' = IF v = {} THEN bad ELSE Append(bad, [line |-> l, id |-> Tr[l].id, clauses |-> v])
JSpec == JInit /\ [][JNext]_<<l, bad>>
Report == (l = Len(Tr) + 1) => PrintT(<<"VERIF", "verdict", Len(Tr), ToJsonArray(bad)>>)
=============================================================================
