---------------------------- MODULE Trace_ExaRib ----------------------------
(***************************************************************************)
(* Trace validation for ExaRib: every line of the log recorded from the     *)
(* real OutgoingRIB (harness/ribdrv.py) or from the real Peer               *)
(* (harness/peerdrv.py) must be a step of ExaRib's action of that name, and  *)
(* the projection of the real state recorded after the step must equal the  *)
(* specification's state.  Many traces are batched in one file; a line       *)
(* "Begin" resets the state.  Unlogged nondeterminism (iteration order of    *)
(* python sets) is resolved by TLC.                                          *)
(***************************************************************************)
EXTENDS ExaRib, Json, IOUtils, TLCExt

Tr == ndJsonDeserialize(IOEnv.TRACE_FILE)

VARIABLE l
tvars == <<vars, l>>

E == Tr[l]

TFamOf(k)   == IF k \in {"k3", "k5"} THEN "v6u" ELSE IF k = "k7" THEN "v4l" ELSE "v4u"     \* k7: a labeled route (the label is payload: it travels with the attributes x / y)
TAttrIdx(k, a) == <<TFamOf(k), IF k = "k7" /\ a \in {"x", "y"} THEN "xy" ELSE a>>   \* the attribute index of the route text: x and y of the labeled key differ in the label only
TGrouped(f) == f = "v4u"

IsEvent(n) == l <= Len(Tr) /\ E.name = n /\ l' = l + 1

\* projection recorded by the harness after the step == specification state after the step
ObsMatch ==
    /\ cache' = E.obs.cache
    /\ newNlri' = E.obs.queued
    /\ peer' = E.obs.peer
    /\ gen'.live = E.obs.live
    /\ up' = E.obs.up
    /\ E.obs.pending = ((\E k \in Keys : newNlri'[k] # None) \/ refresh' # <<>> \/ pendWd' # <<>>)

\* the wire messages produced for one yielded item have exactly the item's effect
WireOK(m, w, iw) ==
    IF m.kind \in {"rrs", "rre"}
    THEN Len(w) = 1 /\ w[1].t = "rr" /\ w[1].fam = m.fam /\ w[1].sub = (IF m.kind = "rrs" THEN 1 ELSE 2)
    ELSE IF m.kind = "ann"
    THEN /\ \A i \in 1..Len(w) : w[i].t = "upd" /\ w[i].wd = <<>> /\ w[i].eor = "none"
         /\ LET sent == UNION {{w[i].ann[j] : j \in 1..Len(w[i].ann)} : i \in 1..Len(w)}
            IN sent = {m.ent[j] : j \in 1..Len(m.ent)}
    ELSE \* withdraw
         IF iw
         THEN /\ \A i \in 1..Len(w) : w[i].t = "upd" /\ w[i].ann = <<>> /\ w[i].eor = "none"
              /\ UNION {{w[i].wd[j] : j \in 1..Len(w[i].wd)} : i \in 1..Len(w)} = {m.ent[j][1] : j \in 1..Len(m.ent)}
         ELSE \A i \in 1..Len(w) : w[i].t = "upd" /\ w[i].ann = <<>> /\ w[i].wd = <<>> /\ w[i].eor = "none"

TBegin ==
    /\ IsEvent("Begin")
    /\ cache' = [k \in Keys |-> None] /\ newNlri' = [k \in Keys |-> None] /\ peer' = [k \in Keys |-> None]
    /\ groups' = <<>> /\ pendWd' = <<>> /\ refresh' = <<>> /\ refreshFams' = {}
    /\ gen' = [live |-> FALSE, q |-> <<>>]
    /\ up' = FALSE /\ inclWd' = FALSE /\ eorDue' = FALSE /\ eorSent' = {}
    /\ wdog' = [w \in WdNames |-> [plus |-> {}, minus |-> {}]]
    /\ act' = [name |-> "Init"]

SetOf(s) == {s[i] : i \in 1..Len(s)}

TNext ==
    \/ TBegin
    \/ IsEvent("Announce") /\ Announce(E.k, E.a) /\ ObsMatch
    \/ IsEvent("Withdraw") /\ Withdraw(E.k) /\ ObsMatch
    \/ IsEvent("Resend") /\ Resend(E.enhanced, SetOf(E.fams)) /\ ObsMatch
    \/ IsEvent("WithdrawAll") /\ WithdrawAll /\ ObsMatch
    \/ IsEvent("WatchdogAdd") /\ WatchdogAdd(E.w, E.k, E.a, E.withdrawn) /\ ObsMatch
    \/ IsEvent("WatchdogAnnounce") /\ WatchdogAnnounce(E.w) /\ ObsMatch
    \/ IsEvent("WatchdogWithdraw") /\ WatchdogWithdraw(E.w) /\ ObsMatch
    \/ IsEvent("StartFlush") /\ StartFlush /\ ObsMatch
    \/ IsEvent("SendOne") /\ SendOne /\ Head(gen.q) = E.msg /\ inclWd = E.iw /\ WireOK(E.msg, E.wire, E.iw) /\ ObsMatch
    \/ IsEvent("FlushDone") /\ FlushDone /\ ObsMatch
    \/ IsEvent("SendEOR") /\ SendEOR /\ ObsMatch
    \/ IsEvent("SessionDown") /\ SessionDown /\ ObsMatch
    \/ IsEvent("SessionUp") /\ SessionUp /\ ObsMatch

TInit == Init /\ l = 1
TraceSpec == TInit /\ [][TNext]_tvars

\* acceptance: every line consumed.  On rejection print the first line nobody could consume.
TraceAccepted ==
    LET d == TLCGet("stats").diameter IN
    IF d - 1 = Len(Tr) THEN PrintT(<<"VERIF", "accepted", Len(Tr)>>)
    ELSE PrintT(<<"VERIF", "rejected", d, Tr[d].tid, Tr[d].name>>)
=============================================================================
