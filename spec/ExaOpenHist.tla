----------------------------- MODULE ExaOpenHist -----------------------------
(***************************************************************************)
(* C19 for OPEN messages: what a decoded capability says is a function of   *)
(* its own code, whatever was decoded before or after on any session.        *)
(*                                                                         *)
(* Two capabilities exist under two codes each (RFC 2918 ROUTE-REFRESH 2 and  *)
(* its pre-standard code 128; multisession 68 and 131): one class decodes     *)
(* both and tells them apart by an identifier.  `SharedId = TRUE` is the      *)
(* pinned tree: the identifier is an attribute of the CLASS, rewritten by      *)
(* every decoding -- every object decoded earlier changes with it.           *)
(* `SharedId = FALSE`: the identifier belongs to the decoded object.          *)
(* The harness replays every history of the dump into the real decoder and    *)
(* compares every rendering (at once, and again at the end) with Meaning.     *)
(***************************************************************************)
EXTENDS Naturals, Sequences, FiniteSets, TLC
CONSTANTS MaxLen, SharedId

Kinds == {"plain", "rr2", "rr128", "both", "rev", "ms68", "ms131"}
\* capability codes of each kind of OPEN, in wire order
Codes(k) == CASE k = "plain" -> <<>> [] k = "rr2" -> <<2>> [] k = "rr128" -> <<128>> [] k = "both" -> <<2, 128>>
              [] k = "rev" -> <<128, 2>> [] k = "ms68" -> <<68>> [] k = "ms131" -> <<131>>
Family(c) == IF c \in {2, 128} THEN "rr" ELSE "ms"
Variant(c) == IF c \in {2, 68} THEN "RFC" ELSE "Cisco"
\* what the API must say of an OPEN of this kind: code -> variant
Meaning(k) == {<<Codes(k)[i], Variant(Codes(k)[i])>> : i \in 1..Len(Codes(k))}

VARIABLES hist, classId           \* classId: per class, the code it decoded last (initially its RFC code)
vars == <<hist, classId>>
Init == hist = <<>> /\ classId = [f \in {"rr", "ms"} |-> IF f = "rr" THEN 2 ELSE 68]
Last(s) == s[Len(s)]
Decode(k) ==
    /\ Len(hist) < MaxLen
    /\ hist' = Append(hist, k)
    /\ classId' = [f \in {"rr", "ms"} |->
                     LET mine == SelectSeq(Codes(k), LAMBDA c : Family(c) = f) IN IF mine = <<>> THEN classId[f] ELSE Last(mine)]
Next == \E k \in Kinds : Decode(k)
Spec == Init /\ [][Next]_vars

\* how message i renders NOW
Render(i) == {<<Codes(hist[i])[j], IF SharedId THEN Variant(classId[Family(Codes(hist[i])[j])]) ELSE Variant(Codes(hist[i])[j])>> : j \in 1..Len(Codes(hist[i]))}
HistoryFree == \A i \in 1..Len(hist) : Render(i) = Meaning(hist[i])
\* exported for the harness
Expected == [i \in 1..Len(hist) |-> Meaning(hist[i])]
=============================================================================
