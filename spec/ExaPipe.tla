------------------------------ MODULE ExaPipe ------------------------------
(***************************************************************************)
(* C13, second half: an event which was rendered reaches the helper as       *)
(* exactly the bytes of that one record.  Processes.write() (async mode)      *)
(* appends the record to a per-process queue; flush_write_queue() takes up    *)
(* to Batch items per call and os.write()s each: the pipe may take all of it, *)
(* part of it (the rest goes back to the HEAD of the queue and the call       *)
(* stops) or nothing (EAGAIN: the item goes back to the head, the call stops).*)
(*                                                                         *)
(* A byte is <<record, index>>.  Stream: everything the helper has read.      *)
(***************************************************************************)
EXTENDS Naturals, Sequences, FiniteSets, TLC

CONSTANTS Batch, MaxRecs, Lens, MaxOps,
          HeadRequeue   \* TRUE: what flush_write_queue() does; FALSE: the remainder of a partial write goes to the tail (Fifo must then fail)

VARIABLES queue,    \* Seq(Seq(byte)): what is waiting, head first
          out,      \* Seq(byte): what the helper has received
          nrec,     \* records written so far
          lens,     \* lens[i]: length of record i
          hist      \* the operations so far (for replay into Processes)
vars == <<queue, out, nrec, lens, hist>>

Record(i, n) == [k \in 1..n |-> <<i, k>>]
RECURSIVE Flat(_)
Flat(s) == IF s = <<>> THEN <<>> ELSE Head(s) \o Flat(Tail(s))
Min(a, b) == IF a < b THEN a ELSE b

NONE == 100   \* `last` codes: a number below 100 is the count of bytes the pipe took of the next item
EAGAIN == 101
Init == queue = <<>> /\ out = <<>> /\ nrec = 0 /\ lens = <<>> /\ hist = <<>>

Write(n) == /\ nrec < MaxRecs
            /\ queue' = Append(queue, Record(nrec + 1, n))
            /\ nrec' = nrec + 1 /\ lens' = Append(lens, n)
            /\ hist' = Append(hist, [op |-> "write", len |-> n, full |-> 0, last |-> NONE])
            /\ UNCHANGED out

\* one call of flush_write_queue(): `full` items are taken entirely by the pipe, then `last` happens to the next one
\*   last = NONE: the call ended because the queue or the batch was exhausted
\*   last = EAGAIN: os.write raised EAGAIN;   last = k < 100: the pipe took only k bytes of it
Flush(full, last) ==
    LET avail == Min(Batch, Len(queue)) IN
    /\ full \in 0..avail
    /\ (last = NONE) <=> (full = avail)
    /\ last \notin {NONE, EAGAIN} => last \in 0..(Len(queue[full + 1]) - 1)
    /\ LET done == Flat(SubSeq(queue, 1, full))
           rest == SubSeq(queue, full + 1, Len(queue))
       IN IF last \in {NONE, EAGAIN}
          THEN out' = out \o done /\ queue' = rest
          ELSE /\ out' = out \o done \o SubSeq(Head(rest), 1, last)
               /\ LET rem == SubSeq(Head(rest), last + 1, Len(Head(rest))) IN
                  queue' = IF HeadRequeue THEN <<rem>> \o Tail(rest) ELSE Append(Tail(rest), rem)
    /\ hist' = Append(hist, [op |-> "flush", len |-> 0, full |-> full, last |-> last])
    /\ UNCHANGED <<nrec, lens>>

Next == \/ \E n \in Lens : Write(n)
        \/ \E f \in 0..Batch, l \in {NONE, EAGAIN} \cup 0..8 : queue # <<>> /\ Flush(f, l)
Spec == Init /\ [][Next]_vars
Bound == Len(hist) <= MaxOps
View == <<queue, out, nrec, lens>>          \* model checking: the history is not part of the state

\* the property: the helper's stream followed by what is still queued is the records, in order, each once
AllRecords == Flat([i \in 1..nrec |-> Record(i, lens[i])])
Fifo == out \o Flat(queue) = AllRecords
\* nothing empty is left in the queue by a partial write
NoEmptyItem == \A i \in 1..Len(queue) : queue[i] # <<>>
=============================================================================
