--------------------------- MODULE Gen_ExaNegotiate ---------------------------
(* C07 table enumeration: every row (Base with up to Width fields changed) is an initial state; TLC checks the table's own
   sanity invariant (the peer OPEN bytes built by ExaWire!EncOpen decode back, under ExaWire!DecOpen, to what the row says)
   and the dump of the states is the list of cases the harness executes on the real code. *)
EXTENDS ExaNegotiate

CONSTANT Width        \* how many fields may differ from Base
VARIABLES row, peer
RECURSIVE Vary(_, _)
Vary(R, k) == IF k = 0 THEN R
              ELSE Vary(R \cup UNION {UNION {{[r EXCEPT ![f] = v] : v \in Dom[f]} : f \in Fields} : r \in R}, k - 1)
\* a second base: iBGP inside a 4-byte AS (the 2-byte My-AS field of both OPENs carries AS_TRANS)
Bases == {Base, [Base EXCEPT !.localAs = <<64086, 59905>>, !.ibgp = TRUE]}
Rows == {r \in Vary(Bases, Width) : WellFormed(r)}
GenInit == row \in Rows /\ peer = PeerOpenBytes(row)
GenNext == UNCHANGED <<row, peer>>
GenSpec == GenInit /\ [][GenNext]_<<row, peer>>
PeerBytesParse == LET o == DecOpen(Drop(peer, 19)) IN
                  o.ok /\ OpenFamilies(o) = row.pFams /\ o.hold = row.pHold /\ HasCap(o, 65) = row.pAsn4
                  /\ (row.pAsn4 => OpenAsn4(o) = PeerAsSent(row)) /\ o.ext = (row.pForm = "ext")
\* design-level sanity of the RFC function itself: ADD-PATH never flows in a direction only one side asked for
NoOneSidedAddPath == LET n == Negotiate(row) IN
                     (n.apSend # {} => row.addpath \in {2, 3} /\ row.pAddpath \in {1, 3})
                     /\ (n.apRecv # {} => row.addpath \in {1, 3} /\ row.pAddpath \in {2, 3})
                     /\ n.hold <= row.hold /\ n.hold <= row.pHold /\ n.families \subseteq row.fams
=============================================================================
