------------------------------- MODULE ExaPack -------------------------------
(***************************************************************************)
(* C09: splitting a set of announces / withdraws over UPDATEs of at most the *)
(* negotiated size (UpdateCollection.messages, MPNLRICollection).            *)
(*                                                                         *)
(* Gen: TLC enumerates the case descriptors (sizes of the requested sets,     *)
(* families, next hops, ADD-PATH, maximum, and how much room the attributes   *)
(* leave: plenty / exactly k bytes for k around one prefix / none).           *)
(* Judge: the messages the real code yielded for a concretised case are a      *)
(* trace; TLC consumes them with the reference codec and evaluates            *)
(*   Fits, Parses, OnlyRequested (with its own next hop), SameAttributes,     *)
(*   Complete (every requested route that can fit is there),                  *)
(*   NothingWhenNoRoom (no oversized message, no exception).                  *)
(* How routes are partitioned over messages is deliberately left free.        *)
(***************************************************************************)
EXTENDS ExaWire

Dom == [ ext |-> BOOLEAN, addpath |-> BOOLEAN,
         a4 |-> {"0", "1", "2", "fill"}, w4 |-> {"0", "1", "fill"},
         a6 |-> {"0", "1", "3", "fill"}, nh6 |-> {1, 2}, w6 |-> {"0", "2", "fill"},
         v4over6 |-> BOOLEAN,     \* the IPv4 routes have an IPv6 next hop (RFC 8950, extended next hop negotiated)
         \* "pN": N more bytes of attributes, so that the point where a message is full moves through every alignment of the
         \* 7-byte (IPv6 /48) and 4-byte (IPv4 /24) NLRI of the sets that need several messages ("fill")
         room |-> {"large", "k0", "k1", "k3", "k4", "k5", "k6", "k8", "k9", "k12", "k27", "k29", "k31", "k35", "neg", "ext255", "ext256", "p1", "p2", "p3", "p4", "p5", "p6"} ]
Base == [ext |-> FALSE, addpath |-> FALSE, v4over6 |-> FALSE, a4 |-> "2", w4 |-> "0", a6 |-> "0", nh6 |-> 1, w6 |-> "0", room |-> "large"]
Bases == {Base, [Base EXCEPT !.v4over6 = TRUE, !.a6 = "1"], [Base EXCEPT !.a4 = "fill", !.w4 = "fill", !.a6 = "3", !.nh6 = 2, !.w6 = "2"],
          [Base EXCEPT !.a4 = "1", !.room = "k4"], [Base EXCEPT !.a4 = "0", !.a6 = "1", !.room = "k12"],
          [Base EXCEPT !.a4 = "0", !.a6 = "fill", !.room = "p3"], [Base EXCEPT !.a4 = "0", !.w6 = "fill", !.room = "p3"],
          [Base EXCEPT !.a4 = "fill", !.room = "p1"],
          \* room for an MP_REACH_NLRI carrying the short IPv6 prefix (/16) but not the /48 which follows it
          [Base EXCEPT !.a4 = "0", !.a6 = "3", !.room = "k29"],
          \* attributes leaving less room than one prefix, an announce which therefore cannot be sent -- and withdraws, which need no attribute
          [Base EXCEPT !.a4 = "1", !.w4 = "1", !.room = "k1"], [Base EXCEPT !.a4 = "1", !.w6 = "2", !.room = "k0"]}
Fields == DOMAIN Base
Plenty == {"large", "ext255", "ext256", "p1", "p2", "p3", "p4", "p5", "p6"}
WellFormed(c) == (c.v4over6 => c.a4 # "0" /\ c.room \in {"large", "ext255", "ext256"})
              /\ (c.a4 # "0" \/ c.w4 # "0" \/ c.a6 # "0" \/ c.w6 # "0")
              /\ (c.room \notin Plenty => (c.a4 \in {"0", "1", "2"} /\ c.w4 \in {"0", "1"} /\ c.a6 # "fill" /\ c.w6 # "fill"))
              /\ (c.ext => c.a4 # "fill" /\ c.w4 # "fill" /\ c.a6 # "fill" /\ c.w6 # "fill")           \* 65535-byte messages are filled with one large attribute instead

\* ---- judging -------------------------------------------------------------------------------
Chk(name, ok) == IF ok THEN {} ELSE {name}
SetOf(s) == {s[i] : i \in 1..Len(s)}
Key(fam, p) == <<fam, p.bits, p.bytes, p.pid>>
\* NEXT_HOP (3) is left out: it travels only with IPv4 NLRI and is compared with the routes themselves
NonMp(items) == {<<items[i].code, (items[i].flags \div 64) * 64, items[i].val>> : i \in {j \in 1..Len(items) : items[j].code \notin {3, 14, 15}}}
ItemVals(items, code) == {items[i].val : i \in {j \in 1..Len(items) : items[j].code = code}}

\* what one message says: [ok, ann: set of <<key, nh>>, wd: set of keys, attrs: set of non-MP items, hasAnn]
Read(msg, addpath, maxLen) ==
    LET b == DecUpdateBody(Drop(msg, 19)) IN
    IF Len(msg) < 23 \/ Take(msg, 16) # Marker \/ N16(<<msg[17], msg[18]>>) # Len(msg) \/ msg[19] # 2 \/ ~b.ok THEN [ok |-> FALSE]
    ELSE LET at == DecAttrs(b.attrs)
             wd == DecPrefixes(b.wd, addpath)
             nl == DecPrefixes(b.nlri, addpath)
         IN IF ~at.ok \/ ~wd.ok \/ ~nl.ok THEN [ok |-> FALSE]
            ELSE LET nh4 == ItemVals(at.items, 3)
                     mpr == ItemVals(at.items, 14)
                     mpu == ItemVals(at.items, 15)
                     mprDec == {[v |-> v, d |-> DecPrefixes(Drop(v, 4 + v[4] + 1), addpath)] : v \in {x \in mpr : Len(x) >= 5 /\ Len(x) >= 5 + x[4]}}
                     mpuDec == {DecPrefixes(Drop(v, 3), addpath) : v \in {x \in mpu : Len(x) >= 3}}
                 IN IF Cardinality(mprDec) # Cardinality(mpr) \/ Cardinality(mpuDec) # Cardinality(mpu)
                       \/ (\E m \in mprDec : ~m.d.ok) \/ (\E m \in mpuDec : ~m.ok) \/ Cardinality(nh4) > 1
                       \/ (nl.ps # <<>> /\ nh4 = {})
                    THEN [ok |-> FALSE]
                    ELSE [ok |-> TRUE,
                          ann |-> {<<Key("v4u", p), CHOOSE n \in nh4 : TRUE>> : p \in SetOf(nl.ps)}
                                  \cup UNION {{<<Key(IF m.v[2] = 1 THEN "v4u" ELSE "v6u", p), SubSeq(m.v, 5, 4 + m.v[4])>> : p \in SetOf(m.d.ps)} : m \in mprDec},
                          wd |-> {Key("v4u", p) : p \in SetOf(wd.ps)} \cup UNION {{Key("v6u", p) : p \in SetOf(m.ps)} : m \in mpuDec},
                          attrs |-> NonMp(at.items),
                          hasAnn |-> nl.ps # <<>> \/ mprDec # {}]

PfxSize(k, addpath) == 1 + (k[2] + 7) \div 8 + (IF addpath THEN 4 ELSE 0)

\* j = [case, reqA: Seq(<<fam, bits, bytes, pid, nh>>), reqW: Seq(<<fam, bits, bytes, pid>>), ref: bytes, msgs: Seq(bytes), error]
Viol(j) ==
    LET maxLen == IF j.case.ext THEN 65535 ELSE 4096
        ap == j.case.addpath
        reads == [i \in 1..Len(j.msgs) |-> Read(j.msgs[i], ap, maxLen)]
        allOk == \A i \in 1..Len(reads) : reads[i].ok
        refR == Read(j.ref, ap, maxLen)
        wantA == {<<<<x[1], x[2], x[3], x[4]>>, x[5]>> : x \in SetOf(j.reqA)}
        wantW == {<<x[1], x[2], x[3], x[4]>> : x \in SetOf(j.reqW)}
    IN Chk("C09-generating-the-updates-raised", j.error = "")
       \cup Chk("C09-message-longer-than-the-negotiated-maximum", \A i \in 1..Len(j.msgs) : Len(j.msgs[i]) <= maxLen)
       \cup Chk("C09-message-does-not-parse-on-its-own", allOk)
       \cup (IF ~allOk \/ ~refR.ok THEN {} ELSE
             LET gotA == UNION {reads[i].ann : i \in 1..Len(reads)}
                 gotW == UNION {reads[i].wd : i \in 1..Len(reads)}
                 \* room left for IPv4 prefixes next to the reference attributes (19 header + 2 + 2 length fields)
                 attrLen == Len(DecUpdateBody(Drop(j.ref, 19)).attrs)
                 room4 == maxLen - 23 - attrLen
                 noRoom == j.case.room = "neg"
                 mustA == IF noRoom THEN {} ELSE {a \in wantA : IF a[1][1] = "v4u" THEN PfxSize(a[1], ap) <= room4 ELSE PfxSize(a[1], ap) + 24 <= room4}
                 mustW == IF noRoom THEN {} ELSE {w \in wantW : IF w[1] = "v4u" THEN PfxSize(w, ap) <= maxLen - 23 ELSE PfxSize(w, ap) + 16 <= maxLen - 23}
             IN Chk("C09-announced-a-route-or-next-hop-that-was-not-requested", gotA \subseteq wantA)
                \cup Chk("C09-announce-produced-although-the-attributes-leave-no-room", noRoom => gotA = {})
                \cup Chk("C09-withdrew-a-route-that-was-not-requested", gotW \subseteq wantW)
                \cup Chk("C09-requested-announce-missing", mustA \subseteq gotA)
                \cup Chk("C09-requested-withdraw-missing", mustW \subseteq gotW)
                \cup Chk("C09-announce-carried-with-other-attributes", \A i \in 1..Len(reads) : reads[i].hasAnn => reads[i].attrs = refR.attrs))
=============================================================================
