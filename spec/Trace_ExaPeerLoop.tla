------------------------- MODULE Trace_ExaPeerLoop -------------------------
(***************************************************************************)
(* Conformance of the real Peer coroutine with the CONTROL FLOW of            *)
(* ExaPeerLoop: every event recorded from the implementation (the same log    *)
(* Trace_ExaSession judges against the property clauses) must be the step     *)
(* the closed model takes at its current `pc` -- the same actions, bound to   *)
(* the logged fields.  Steps of the model which leave no event (a timer        *)
(* firing, a teardown noticed, a branch which writes nothing) are silent       *)
(* steps, composed between two lines.  Variables the log does not carry        *)
(* (cause of a Notify before it is written, ...) are inferred by TLC.          *)
(*                                                                         *)
(* A log is accepted when some behaviour consumes all its lines; the harness   *)
(* reads the highest line reached from the progress markers and reports a      *)
(* log which is not accepted as DRIFT (model and code disagree on the control  *)
(* flow) -- never as a violation of a listed property: those are                *)
(* Trace_ExaSession's verdicts.                                               *)
(***************************************************************************)
EXTENDS ExaPeerLoop, Json, IOUtils, TLCExt

Tr == ndJsonDeserialize(IOEnv.TRACE_FILE)
VARIABLES l, absorbing        \* absorbing: handle_connection is replacing the transport (its steps are one model action)
tvars == <<allvars, l, absorbing>>
E == Tr[l]
Line == l <= Len(Tr) /\ l' = l + 1
KeepP == UNCHANGED <<budget, script, warm, lastEnv>>

TBegin ==
    /\ E.e = "Begin" /\ Line /\ absorbing' = FALSE
    /\ fsm' = "IDLE" /\ open' = FALSE /\ sentOpen' = FALSE /\ gotOpen' = FALSE /\ gotKA' = FALSE /\ hold' = 0
    /\ inq' = <<>> /\ fault' = NoFault /\ mayFault' = {} /\ closing' = FALSE /\ notified' = FALSE
    /\ lastRx' = 0 /\ lastKA' = 0 /\ connAt' = 0 /\ apiUp' = FALSE /\ tear' = 0 /\ leftAt' = -1 /\ now' = 0
    /\ pc' = "run" /\ cause' = None /\ deaf' = FALSE /\ waitFrom' = 0 /\ delayUntil' = 0 /\ viol' = {} /\ KeepP

\* environment lines: no guard of the closed model's environment applies (the real remote end does as it pleases)
TTime == E.e = "time" /\ Line /\ now' = E.t /\ UNCHANGED <<svars, pvars, absorbing>>
TRx == /\ E.e = "rx" /\ Line /\ RemoteSendEff(E.cls, E.hold)
       /\ UNCHANGED <<now, pc, cause, deaf, waitFrom, delayUntil, viol, absorbing>> /\ KeepP
TTeardown == /\ E.e = "teardown" /\ Line /\ TeardownEff(E.code)
             /\ UNCHANGED <<now, pc, cause, deaf, waitFrom, delayUntil, viol, absorbing>> /\ KeepP
TNoise == /\ (E.e \in {"end", "harness"} \/ (E.e = "api" /\ E.what \in {"connected", "negotiated"})
              \/ (E.e = "conn" /\ E.what = "incoming-refused"))
          /\ Line /\ absorbing' = (IF E.e = "conn" THEN FALSE ELSE absorbing) /\ UNCHANGED <<allvars>>
TConnOk == E.e = "conn" /\ E.what = "outgoing" /\ Line /\ EConnectOk /\ UNCHANGED absorbing
TConnFail == /\ E.e = "conn" /\ E.what = "refused" /\ Line /\ pc = "e2" /\ pc' = "t1"
             /\ UNCHANGED <<vars, cause, deaf, waitFrom, delayUntil, viol, absorbing>> /\ KeepP
\* an inbound connection: offered -> (api down, fsm IDLE, close of the old transport: absorbed) -> accepted = EIncoming's Replace
TOffered == E.e = "conn" /\ E.what = "incoming-offered" /\ Line /\ absorbing' = TRUE /\ UNCHANGED allvars
TAbsorb == /\ absorbing /\ Line /\ UNCHANGED <<allvars, absorbing>>
           /\ (E.e \in {"fsm", "close"} \/ (E.e = "api" /\ E.what = "down"))
TAccepted ==
    /\ E.e = "conn" /\ E.what = "incoming-accepted" /\ Line /\ absorbing' = FALSE
    /\ IF open THEN Replace /\ pc' = "run" /\ deaf' = FALSE /\ delayUntil' = now
               ELSE NewTransportEff(now) /\ viol' = viol /\ delayUntil' = now /\ pc' = "run" /\ deaf' = FALSE
    /\ UNCHANGED <<now, cause, waitFrom>> /\ KeepP

\* the neighbour removed (its api down / fsm IDLE / close / fsm IDLE lines are ERemove's one step) and configured again
TRemove ==
    /\ E.e = "remove" /\ Line /\ absorbing' = TRUE
    /\ fsm' = "IDLE" /\ apiUp' = FALSE /\ open' = FALSE /\ inq' = <<>> /\ leftAt' = -1 /\ tear' = 0
    /\ UNCHANGED <<sentOpen, gotOpen, gotKA, hold, fault, mayFault, closing, notified, lastRx, lastKA, connAt>>
    /\ pc' = "gone" /\ deaf' = FALSE /\ UNCHANGED <<now, cause, waitFrom, delayUntil, viol>> /\ KeepP
TReadd ==
    /\ E.e = "readd" /\ Line /\ absorbing' = FALSE /\ pc = "gone"
    /\ pc' = "run" /\ delayUntil' = now
    /\ UNCHANGED <<svars, now, cause, deaf, waitFrom, viol>> /\ KeepP

\* system lines: the action of ExaPeerLoop the event names, at the current pc
TFsm ==
    /\ E.e = "fsm" /\ ~absorbing /\ Line /\ UNCHANGED absorbing
    /\ \/ E.to = "ACTIVE" /\ SActive
       \/ E.frm = "ACTIVE" /\ E.to = "IDLE" /\ SIdle
       \/ E.to = "CONNECT" /\ SConn
       \/ E.to = "OPENSENT" /\ SOSent
       \/ E.to = "OPENCONFIRM" /\ SOConf
       \/ E.to = "ESTABLISHED" /\ SEst
       \/ E.frm # "ACTIVE" /\ E.to = "IDLE" /\ SToIdle
TTx ==
    /\ E.e = "tx" /\ Line /\ UNCHANGED absorbing
    /\ \/ E.type = OPEN /\ SOpen
       \/ E.type = KEEPALIVE /\ SKa0
       \* when a KEEPALIVE is due is C12's business (Trace_ExaSession); here only where in the loop it is written
       \/ E.type = KEEPALIVE /\ pc \in Main /\ Sys(TxEff(KEEPALIVE, now), TxViol(KEEPALIVE, 0, 0, now), pc) /\ Same
       \/ E.type \in {UPDATE, REFRESH} /\ SEor
       \* further UPDATEs / ROUTE-REFRESH messages of the main loop: one model location
       \/ E.type \in {UPDATE, REFRESH} /\ pc = "m2" /\ Sys(TxEff(E.type, now), TxViol(E.type, 0, 0, now), "m2") /\ Same
       \* the code of the NOTIFICATION is the one the model raised (the subcode is free wherever the RFCs leave it so)
       \/ E.type = NOTIFICATION /\ cause[1] = E.code /\ SNotify
TGot == E.e = "got" /\ Line /\ UNCHANGED absorbing /\ (SROpen \/ SRKa \/ SMRead)
TApi ==
    /\ E.e = "api" /\ ~absorbing /\ Line /\ UNCHANGED absorbing
    /\ \/ E.what = "up" /\ tear = 0 /\ SUp
       \/ E.what = "down" /\ fsm \notin {"IDLE", "ACTIVE"} /\ SDown
TClose == E.e = "close" /\ ~absorbing /\ Line /\ UNCHANGED absorbing /\ open /\ (SClose \/ SFClose \/ SWFail)

\* steps of the model which the implementation takes without leaving an event
Silent ==
    /\ l <= Len(Tr) /\ UNCHANGED <<l, absorbing>>
    /\ \/ SHold \/ SOWait \/ STear
       \/ (inq # <<>> /\ Head(inq)[1] = "EOF" /\ (SROpen \/ SRKa \/ SMRead))      \* the end of the stream is not a message: no `got` line
       \/ (tear # 0 /\ SUp)
       \/ (~open /\ SNotify)
       \/ (fsm \in {"IDLE", "ACTIVE"} /\ SDown)
       \/ (~open /\ SClose)

TNext == l <= Len(Tr) /\ (TBegin \/ TTime \/ TRx \/ TTeardown \/ TNoise \/ TConnOk \/ TConnFail \/ TOffered \/ TAbsorb \/ TAccepted \/ TRemove \/ TReadd
                          \/ TFsm \/ TTx \/ TGot \/ TApi \/ TClose \/ Silent)
TInit == PInit /\ l = 1 /\ absorbing = FALSE

\* the highest line reached by any behaviour (register 7, one worker): the log is accepted when it is Len(Tr) + 1
TInitReg == TInit /\ TLCSet(7, 0)
Progress == TLCSet(7, IF l > TLCGet(7) THEN l ELSE TLCGet(7))
Reached == PrintT(<<"VERIF", "reached", TLCGet(7), Len(Tr)>>)
TraceSpec == TInitReg /\ [][TNext]_tvars
\* the history variables of the closed model play no part here
TView == <<svars, now, pc, cause, deaf, waitFrom, delayUntil, l, absorbing>>
=============================================================================
