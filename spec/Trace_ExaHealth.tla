--------------------------- MODULE Trace_ExaHealth ---------------------------
(* Trace validation for C20: one line per loop iteration of the real healthcheck.loop() (inputs + the commands it wrote,
   each parsed back by the real route parser and abstracted), replayed through ExaHealth's actions; the commands written
   must equal Emits(state) and the hysteresis properties are evaluated on every step. *)
EXTENDS ExaHealth, Json, IOUtils
Tr == ndJsonDeserialize(IOEnv.TRACE_FILE)
VARIABLES l, bad, oann      \* oann: what the peers hold according to the commands actually written
tv == <<vars, l, bad, oann>>
E == Tr[l]
Chk(name, ok) == IF ok THEN {} ELSE {name}
ObsOut == [i \in 1..Len(E.out) |-> <<E.out[i][1], E.out[i][2], E.out[i][3], E.out[i][4]>>]
Note(v) == bad' = IF v = {} THEN bad ELSE Append(bad, [tid |-> E.tid, line |-> l, clauses |-> v])

ObsAnn == IF Len(E.out) = 0 THEN oann ELSE IF E.out[1][1] = "withdraw" THEN "withdrawn" ELSE E.out[1][4]
\* the hysteresis judged on what was actually written (oann -> ObsAnn), against the history of results run'
Hyst == (IF ObsAnn = "up" /\ oann # "up" THEN Chk("C20-up-announced-before-rise-consecutive-successes", Len(run') >= Rise /\ \A i \in (Len(run') - Rise + 1)..Len(run') : run'[i]) ELSE {})
        \cup (IF E.e = "Round" /\ ~E.disabled /\ ((ObsAnn = "down" /\ oann # "down") \/ (ObsAnn = "withdrawn" /\ oann \notin {"withdrawn", "none"}))
              THEN Chk("C20-down-announced-before-fall-consecutive-failures", Len(run') >= Fall /\ \A i \in (Len(run') - Fall + 1)..Len(run') : ~run'[i]) ELSE {})

TBegin == E.e = "Begin" /\ oann' = "none" /\ state' = "INIT" /\ checks' = 0 /\ announced' = "none" /\ run' = <<>> /\ out' = <<>> /\ hist' = <<>> /\ bad' = bad
TRound == /\ E.e = "Round" /\ oann' = ObsAnn
          /\ Round(E.ok, E.disabled)
          /\ Note(Chk("C20-invalid-command-line-written", E.valid)
                  \cup Chk("C20-commands-written-differ-from-the-state", ObsOut = out')
                  \cup Hyst)
TExit == /\ E.e = "Exit" /\ Exit /\ oann' = ObsAnn
         /\ Note(Chk("C20-invalid-command-line-written", E.valid) \cup Chk("C20-routes-not-withdrawn-on-exit", ObsOut = out'))
TNext == l <= Len(Tr) /\ l' = l + 1 /\ (TBegin \/ TRound \/ TExit)
TInit == Init /\ l = 1 /\ bad = <<>> /\ oann = "none"
TSpec == TInit /\ [][TNext]_tv
Report == (l = Len(Tr) + 1) => PrintT(<<"VERIF", "verdict", Len(Tr), ToJsonArray(bad)>>)
=============================================================================
