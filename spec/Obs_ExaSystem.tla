---------------------------- MODULE Obs_ExaSystem ----------------------------
(***************************************************************************)
(* C11 (and C04) at the level of a whole peer: the real Peer coroutine,     *)
(* its real OutgoingRIB and a scripted remote speaker.  The log holds what   *)
(* the remote speaker received on each session (UPDATEs abstracted to keys   *)
(* and attribute values, End-of-RIB markers), the operator's calls, and the  *)
(* Adj-RIB-Out ExaBGP reports (cache) at chosen points.  This module keeps   *)
(* the table a peer rebuilds from the wire and the operator's intent, and    *)
(* collects the violated clauses:                                            *)
(*  S1 at the first End-of-RIB of a session the rebuilt table equals the      *)
(*     reported Adj-RIB-Out (for every key not operated on since the          *)
(*     session came up -- those may still be queued)                          *)
(*  S2 one End-of-RIB per negotiated family per session, none for others,     *)
(*     none twice                                                            *)
(*  S3 at a quiescent end: every negotiated family got its End-of-RIB, and    *)
(*     table = reported Adj-RIB-Out = intent                                  *)
(*  S4 a key whose intent is "withdrawn" since before the session came up     *)
(*     is never announced on that session                                     *)
(*  S5 the reported Adj-RIB-Out always equals the intent                      *)
(***************************************************************************)
EXTENDS Naturals, Sequences, FiniteSets, TLC, Json, IOUtils

CONSTANTS Keys, Fams
None == "none"
Tr == ndJsonDeserialize(IOEnv.TRACE_FILE)

VARIABLES l, table, want, eors, touched, up, bad, cfgr, apir   \* cfgr / apir: configured and API-announced routes (want = their merge)
ovars == <<l, table, want, eors, touched, up, bad, cfgr, apir>>
E == Tr[l]
Empty == [k \in Keys |-> None]
SetOf(s) == {s[i] : i \in 1..Len(s)}
Chk(name, ok) == IF ok THEN {} ELSE {name}

Note(v) == bad' = IF v = {} THEN bad ELSE Append(bad, [tid |-> E.tid, line |-> l, e |-> E.e, clauses |-> v])

Step ==
    /\ l <= Len(Tr) /\ l' = l + 1
    /\ (E.e \notin {"Begin", "op", "reload", "down"} => UNCHANGED <<cfgr, apir>>)
    /\ CASE E.e = "Begin" ->
              /\ table' = Empty /\ want' = E.cfg /\ eors' = {} /\ touched' = {} /\ up' = FALSE /\ bad' = bad
              /\ cfgr' = E.cfg /\ apir' = Empty
         [] E.e = "up" ->
              /\ table' = Empty /\ eors' = {} /\ touched' = {} /\ up' = TRUE /\ UNCHANGED want
              /\ bad' = bad      \* (the reported Adj-RIB-Out is judged at operator calls, End-of-RIB and quiescence: a reload that
                                 \*  re-establishes the session only applies the route difference once the new session starts)
         [] E.e = "down" ->
              \* without adj-rib-out the API-announced routes do not survive the session, the configured ones do (C11: "configured
              \* routes plus API-announced routes not since withdrawn, when adj-rib-out is kept")
              /\ table' = Empty /\ eors' = {} /\ touched' = {} /\ up' = FALSE /\ bad' = bad
              /\ want' = IF E.hascache THEN want ELSE cfgr
              /\ apir' = (IF E.hascache THEN apir ELSE Empty)
              /\ cfgr' = cfgr
         [] E.e = "op" ->
              /\ want' = IF E.name = "Announce" THEN [want EXCEPT ![E.k] = E.a] ELSE [want EXCEPT ![E.k] = None]
              /\ apir' = IF E.name = "Announce" THEN [apir EXCEPT ![E.k] = E.a] ELSE [apir EXCEPT ![E.k] = None]
              /\ cfgr' = IF E.name = "Announce" THEN cfgr ELSE [cfgr EXCEPT ![E.k] = None]
              /\ touched' = touched \cup {E.k}
              /\ UNCHANGED <<table, eors, up>>
              /\ Note(Chk("C11-S5-adj-rib-out-differs-from-intent", E.hascache => E.cache = want'))
         [] E.e = "upd" ->
              /\ table' = [k \in Keys |->
                             IF \E i \in 1..Len(E.ann) : E.ann[i][1] = k
                             THEN (CHOOSE x \in SetOf(E.ann) : x[1] = k)[2]
                             ELSE IF k \in SetOf(E.wd) THEN None ELSE table[k]]
              /\ UNCHANGED <<want, eors, touched, up>>
              /\ Note(Chk("C11-S4-route-withdrawn-while-down-was-readvertised",
                          \A i \in 1..Len(E.ann) : ~(want[E.ann[i][1]] = None /\ E.ann[i][1] \notin touched))
                      \cup Chk("C11-S4-unknown-route-on-the-wire", \A i \in 1..Len(E.ann) : E.ann[i][1] \in Keys))
         [] E.e = "eor" ->
              /\ eors' = eors \cup {E.fam}
              /\ UNCHANGED <<table, want, touched, up>>
              /\ Note(Chk("C11-S2-end-of-rib-for-a-family-not-negotiated", E.fam \in Fams)
                      \cup Chk("C11-S2-end-of-rib-sent-twice", E.fam \notin eors)
                      \cup Chk("C11-S1-end-of-rib-before-the-adj-rib-out-was-readvertised",
                               \A k \in Keys : k \notin touched => table[k] = (IF E.hascache THEN E.cache[k] ELSE want[k])))
         [] E.e = "reload" ->
              \* C17: a successful reload makes the intent "new configuration + API routes still announced"; a failed one
              \* changes nothing: neighbours, reported Adj-RIB-Out and queue are what they were (E.before = the projection
              \* taken just before the reload, E.cache / E.pending / E.same just after)
              /\ cfgr' = IF E.ok THEN E.new ELSE cfgr
              /\ apir' = apir
              /\ want' = IF E.ok THEN [k \in Keys |-> IF apir[k] # None THEN apir[k] ELSE E.new[k]] ELSE want
              /\ touched' = IF E.ok THEN touched \cup {k \in Keys : E.new[k] # cfgr[k]} ELSE touched
              /\ UNCHANGED <<table, eors, up>>
              /\ Note((IF E.ok THEN Chk("C17-reload-of-a-valid-configuration-refused", E.result)
                       ELSE Chk("C17-reload-of-a-broken-configuration-accepted", ~E.result)
                            \cup Chk("C17-failed-reload-changed-the-adj-rib-out", E.cache = E.before)
                            \cup Chk("C17-failed-reload-queued-routes", E.pending = E.pendingBefore)
                            \cup Chk("C17-failed-reload-changed-the-neighbours", E.same)))
         [] E.e = "quiet" ->
              /\ UNCHANGED <<table, want, eors, touched, up>>
              /\ Note(Chk("C11-S3-end-of-rib-missing-for-a-negotiated-family", up => eors = Fams)
                      \cup Chk("C11-S3-peer-table-differs-from-adj-rib-out-after-resync", (up /\ E.hascache) => table = E.cache)
                      \cup Chk("C11-S3-peer-table-differs-from-the-intended-table", up => table = want)
                      \cup Chk("C11-S5-adj-rib-out-differs-from-intent", E.hascache => E.cache = want))
         [] OTHER -> UNCHANGED <<table, want, eors, touched, up>> /\ bad' = bad

OInit == l = 1 /\ table = Empty /\ want = Empty /\ eors = {} /\ touched = {} /\ up = FALSE /\ bad = <<>> /\ cfgr = Empty /\ apir = Empty
ObsSpec == OInit /\ [][Step]_ovars
Report == (l = Len(Tr) + 1) => PrintT(<<"VERIF", "verdict", Len(Tr), ToJsonArray(bad)>>)
=============================================================================
