---------------------------- MODULE MC_ExaFraming ----------------------------
EXTENDS ExaFraming

\* one descriptor per class of header; lengths are the real ones so that the harness can build the bytes as they are
D(mark, len, type, actual) == [mark |-> mark, len |-> len, type |-> type, actual |-> actual]
MCAlphabet == {
    D(TRUE, 19, 4, 19),        \* KEEPALIVE
    D(TRUE, 23, 2, 23),        \* minimal UPDATE (End-of-RIB)
    D(TRUE, 27, 2, 27),        \* UPDATE withdrawing one prefix
    D(TRUE, 23, 5, 23),        \* ROUTE-REFRESH
    D(FALSE, 19, 4, 19),       \* marker corrupted
    D(TRUE, 18, 4, 19),        \* length below the header size
    D(TRUE, 20, 4, 20),        \* KEEPALIVE with a body: per-type bound
    D(TRUE, 22, 2, 22),        \* UPDATE shorter than its minimum
    D(TRUE, 19, 9, 19),        \* unknown type
    D(TRUE, 4096, 2, 4096),    \* exactly the classic maximum: acceptable
    D(TRUE, 4097, 2, 4097),    \* longer than 4096: refused unless extended messages are negotiated
    D(TRUE, 65535, 2, 65535) } \* exactly the extended maximum (RFC 8654): acceptable iff negotiated
MCCutOffsets == {1, 15, 16, 17, 18, 19, 20}
=============================================================================
