SPECIFICATION PSpec
CONSTANTS
  G = 1250
  OpenWait = 60000
  CfgHold = 9000
  Offers = {9000, 3000, 0}
  SendClasses = {"OPEN", "OPEN-version", "OPEN-as", "OPEN-id", "OPEN-hold", "OPEN-trunc", "KA", "UPD", "UPD-eor", "UPD-reset", "UPD-tolerated", "NOTIF", "REFRESH", "OPER", "HDR-marker", "HDR-length", "HDR-type", "EOF"}
  Ticks = {40, 150, 1000, 3100, 10000, 61000}
  TearCodes = {2, 4}
  Budget = 4
  EdgeCover = FALSE
  EstablishEarly = FALSE
  NoHoldTimer = FALSE
  AnswerNotification = FALSE
  StarveAccepted = FALSE
  WithRemove = TRUE
VIEW PView
INVARIANT PTypeOK
INVARIANT NoViolation
INVARIANT EstablishedOnlyAfter
INVARIANT UpOnlyEstablished
INVARIANT PcFsm
CHECK_DEADLOCK FALSE
