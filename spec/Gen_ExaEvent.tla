----------------------------- MODULE Gen_ExaEvent -----------------------------
EXTENDS ExaEvent
VARIABLES u, z
GenInit == u \in Rows /\ z = 0
GenSpec == GenInit /\ [][UNCHANGED <<u, z>>]_<<u, z>>
TableOK == u.kind \in Kinds
=============================================================================
