----------------------------- MODULE ExaUpdateOut -----------------------------
(***************************************************************************)
(* Sent UPDATEs (C01, C09).  A row = (route the operator expressed, kind of  *)
(* negotiated session).  Expected(row) is what the RFCs require on the wire:  *)
(* which section carries the prefix, whether a path identifier is present,    *)
(* the next hop and where it goes, the attribute values, the defaults for     *)
(* what the operator did not give, AS_TRANS + AS4_PATH toward 2-byte peers.   *)
(* The bytes ExaBGP emitted are decoded by ExaWire (DecUpdateBody, DecAttrs,  *)
(* DecPrefixes) inside TLC and compared -- nothing is decoded in Python.      *)
(***************************************************************************)
EXTENDS ExaWire

A(hi, lo) == <<hi, lo>>
B4(a, b, c, d) == <<a, b, c, d>>
LocalAs2 == A(0, 65000)
LocalAs4 == A(64086, 59905)          \* 4200000001
PeerAs == A(0, 65001)
LocalAddr == B4(127, 0, 0, 1)

Dom == [
    \* session
    ibgp |-> BOOLEAN, local4 |-> BOOLEAN,       \* local AS needs four bytes
    pasn4 |-> BOOLEAN,                           \* the peer announced the 4-byte AS capability
    addpath |-> BOOLEAN,                         \* ADD-PATH send negotiated for the family
    ext |-> BOOLEAN,                             \* extended messages (65535)
    \* route
    fam |-> {"v4u", "v6u"},
    pfx |-> {"a", "b", "def"},                   \* /24 (resp. /48), /17 with a non-zero last octet (resp. /64), default route
    pid |-> {"none", "seven"},
    nh |-> {"given", "self"},
    second |-> BOOLEAN,                          \* the route object was first resolved for another neighbour (local address 127.0.0.1), this
                                                 \* session is a second neighbour whose local address is 127.0.0.9 (one API command, two peers)
    origin |-> {"none", "igp", "egp", "incomplete"},
    aspath |-> {"none", "short", "four", "set", "fourset"},
    med |-> {"none", "ten", "max"},
    pref |-> {"none", "two"},
    atomic |-> BOOLEAN,
    aggr |-> {"none", "two", "four"},
    comm |-> {"none", "one", "two"},
    orig |-> BOOLEAN ]

Base == [ibgp |-> FALSE, local4 |-> FALSE, pasn4 |-> TRUE, addpath |-> FALSE, ext |-> FALSE, fam |-> "v4u", pfx |-> "a", pid |-> "none", nh |-> "given", second |-> FALSE,
         origin |-> "none", aspath |-> "none", med |-> "none", pref |-> "none", atomic |-> FALSE, aggr |-> "none", comm |-> "none", orig |-> FALSE]
Bases == { Base,
           [Base EXCEPT !.ibgp = TRUE],
           [Base EXCEPT !.local4 = TRUE, !.pasn4 = FALSE, !.aspath = "four"],
           [Base EXCEPT !.fam = "v6u", !.addpath = TRUE, !.pid = "seven"],
           [Base EXCEPT !.ibgp = TRUE, !.local4 = TRUE, !.med = "ten", !.comm = "two", !.aggr = "four"],
           [Base EXCEPT !.pasn4 = FALSE, !.aggr = "four", !.aspath = "four", !.ext = TRUE] }
Fields == DOMAIN Base
WellFormed(r) == (r.nh = "self" => r.fam = "v4u")          \* the harness session has an IPv4 local address only
              /\ (r.pref # "none" => r.ibgp)                 \* LOCAL_PREF toward an external peer: not constrained here
              /\ (r.orig => r.ibgp)
              /\ ((r.ibgp /\ r.local4) => r.pasn4)          \* an iBGP peer inside a 4-byte AS necessarily speaks 4-byte AS numbers

LocalAs(r) == IF r.local4 THEN LocalAs4 ELSE LocalAs2
PeerAsOf(r) == IF r.ibgp THEN LocalAs(r) ELSE PeerAs

\* ---- what the operator wrote -----------------------------------------------------------
Pfx(r) == CASE r.fam = "v4u" /\ r.pfx = "a"   -> [bits |-> 24, bytes |-> <<10, 0, 1>>]
            [] r.fam = "v4u" /\ r.pfx = "b"   -> [bits |-> 17, bytes |-> <<10, 9, 128>>]
            [] r.fam = "v4u" /\ r.pfx = "def" -> [bits |-> 0, bytes |-> <<>>]
            [] r.fam = "v6u" /\ r.pfx = "a"   -> [bits |-> 48, bytes |-> <<32, 1, 13, 184, 0, 3>>]
            [] r.fam = "v6u" /\ r.pfx = "b"   -> [bits |-> 64, bytes |-> <<32, 1, 13, 184, 0, 5, 0, 1>>]
            [] OTHER                           -> [bits |-> 0, bytes |-> <<>>]
NH4 == B4(192, 0, 2, 1)
NH6 == <<32, 1, 13, 184, 0, 0, 0, 0, 0, 0, 0, 0, 0, 0, 0, 1>>
GivenPath(r) == CASE r.aspath = "short" -> <<[t |-> 2, asns |-> <<A(0, 65010), A(0, 65020)>>]>>
                  [] r.aspath = "four"  -> <<[t |-> 2, asns |-> <<A(0, 65010), A(64086, 59904), A(1, 0)>>]>>     \* 4200000000, 65536
                  [] r.aspath = "set"   -> <<[t |-> 2, asns |-> <<A(0, 65010)>>], [t |-> 1, asns |-> <<A(0, 65020), A(0, 65030)>>]>>
                  \* a 4-byte AS number in a segment which is not the last one
                  [] r.aspath = "fourset" -> <<[t |-> 2, asns |-> <<A(0, 65010), A(64086, 59904)>>], [t |-> 1, asns |-> <<A(0, 65030), A(0, 65040)>>]>>
                  [] OTHER -> <<>>

\* ---- what the RFCs require on the wire ------------------------------------------------------
ExpPath(r) == IF r.aspath # "none" THEN GivenPath(r)
              ELSE IF r.ibgp THEN <<>> ELSE <<[t |-> 2, asns |-> <<LocalAs(r)>>]>>       \* defaults: empty on iBGP, the true local AS on eBGP
HasLarge(p) == \E i \in 1..Len(p) : \E j \in 1..Len(p[i].asns) : p[i].asns[j][1] # 0
ExpNextHop(r) == IF r.fam = "v6u" THEN NH6 ELSE IF r.nh = "self" THEN (IF r.second THEN B4(127, 0, 0, 9) ELSE LocalAddr) ELSE NH4
ExpPid(r) == IF ~r.addpath THEN -1 ELSE IF r.pid = "seven" THEN 7 ELSE 0
AggrVal(r) == CASE r.aggr = "two"  -> <<A(0, 65010), B4(10, 0, 0, 9)>>
                [] r.aggr = "four" -> <<A(64086, 59904), B4(10, 0, 0, 9)>>
                [] OTHER -> <<>>

\* expected attribute items by type code: code -> value bytes ("absent" = must not be there)
Absent == <<-1>>
ExpAttr(r, code) ==
    CASE code = 1 -> <<IF r.origin = "egp" THEN 1 ELSE IF r.origin = "incomplete" THEN 2 ELSE 0>>           \* default IGP
      [] code = 2 -> EncSegs(ExpPath(r), r.pasn4)                                                        \* AS_TRANS substituted by Asn2Bytes
      [] code = 3 -> IF r.fam = "v4u" THEN ExpNextHop(r) ELSE Absent
      [] code = 4 -> IF r.med = "ten" THEN B4(0, 0, 0, 10) ELSE IF r.med = "max" THEN B4(255, 255, 255, 255) ELSE Absent
      [] code = 5 -> IF r.ibgp THEN (IF r.pref = "two" THEN B4(0, 0, 0, 200) ELSE B4(0, 0, 0, 100)) ELSE Absent   \* 100 on iBGP, none on eBGP
      [] code = 6 -> IF r.atomic THEN <<>> ELSE Absent
      [] code = 7 -> IF r.aggr = "none" THEN Absent
                     ELSE IF r.pasn4 THEN Asn4Bytes(AggrVal(r)[1]) \o AggrVal(r)[2]
                     ELSE Asn2Bytes(AggrVal(r)[1]) \o AggrVal(r)[2]                                       \* AS_TRANS + AS4_AGGREGATOR
      [] code = 8 -> IF r.comm = "one" THEN B4(253, 232, 0, 1) ELSE IF r.comm = "two" THEN B4(253, 232, 0, 1) \o B4(255, 255, 255, 1) ELSE Absent
      [] code = 9 -> IF r.orig THEN B4(10, 0, 0, 1) ELSE Absent
      [] code = 10 -> IF r.orig THEN B4(10, 0, 0, 2) ELSE Absent
      [] code = 17 -> IF ~r.pasn4 /\ HasLarge(ExpPath(r)) THEN EncSegs(ExpPath(r), TRUE) ELSE Absent     \* RFC 6793 AS4_PATH
      [] code = 18 -> IF ~r.pasn4 /\ r.aggr = "four" THEN Asn4Bytes(AggrVal(r)[1]) \o AggrVal(r)[2] ELSE Absent
      [] OTHER -> Absent
CheckedCodes == {1, 2, 3, 4, 5, 6, 7, 8, 9, 10, 17, 18}

\* ---- judging one emitted message ----------------------------------------------------------------
Chk(name, ok) == IF ok THEN {} ELSE {name}
ItemVal(items, code) == LET S == {i \in 1..Len(items) : items[i].code = code} IN
                        IF S = {} THEN Absent ELSE items[CHOOSE i \in S : TRUE].val
Count(items, code) == Cardinality({i \in 1..Len(items) : items[i].code = code})
\* well-known attributes are 0x40, optional transitive 0xC0, optional non-transitive 0x80 (partial / extended-length bits ignored)
FlagOK(it) == LET f == (it.flags \div 64) * 64 IN
              CASE it.code \in {1, 2, 3, 5, 6} -> f = 64
                [] it.code \in {4, 9, 10, 14, 15} -> f = 128
                [] it.code \in {7, 8, 17, 18} -> f = 192
                [] OTHER -> TRUE

PlaceViol(r, items, nl) ==        \* where the prefix, its path identifier and its next hop must be
    LET mp == ItemVal(items, 14)
        inMp == mp # Absent
        want == [bits |-> Pfx(r).bits, bytes |-> Pfx(r).bytes, pid |-> ExpPid(r)]
    IN IF r.fam = "v4u"
       THEN Chk("C01-ipv4-prefix-not-in-the-nlri-section-as-asked", ~inMp /\ nl.ps = <<want>>)
       ELSE Chk("C01-nlri-section-not-empty-for-an-mp-route", nl.ps = <<>>)
            \cup (IF ~inMp THEN {"C01-mp-reach-missing"}
                  ELSE LET nhl == mp[4]
                           mpn == DecPrefixes(Drop(mp, 4 + nhl + 1), r.addpath)
                       IN Chk("C01-mp-reach-family-or-next-hop-differs", Take(mp, 3) = <<0, 2, 1>> /\ SubSeq(mp, 5, 4 + nhl) = ExpNextHop(r))
                          \cup Chk("C01-mp-reach-prefix-or-path-id-differs", mpn.ok /\ mpn.ps = <<want>>))

AttrViol(r, items) ==
    Chk("C01-attribute-repeated", \A c \in CheckedCodes \cup {14, 15} : Count(items, c) <= 1)
    \cup Chk("C01-attribute-flags-wrong", \A i \in 1..Len(items) : FlagOK(items[i]))
    \cup UNION {Chk("C01-attribute-" \o ToString(c) \o "-differs-from-what-was-asked", ItemVal(items, c) = ExpAttr(r, c)) : c \in CheckedCodes}

MsgViol(r, msg) ==        \* msg = full message bytes
    LET maxLen == IF r.ext THEN 65535 ELSE 4096
        b == DecUpdateBody(Drop(msg, 19))
    IN Chk("C01-message-longer-than-the-negotiated-maximum", Len(msg) <= maxLen)
       \cup Chk("C01-header-length-or-marker-wrong", Take(msg, 16) = Marker /\ N16(<<msg[17], msg[18]>>) = Len(msg) /\ msg[19] = 2)
       \cup (IF ~b.ok THEN {"C01-update-sections-do-not-parse"}
             ELSE LET at == DecAttrs(b.attrs)
                      nl == DecPrefixes(b.nlri, r.addpath)
                  IN IF ~at.ok \/ ~nl.ok THEN {"C01-attributes-or-nlri-do-not-parse"}
                     ELSE Chk("C01-withdrawn-section-not-empty", b.wd = <<>>) \cup AttrViol(r, at.items) \cup PlaceViol(r, at.items, nl))
=============================================================================
