-------------------------- MODULE Judge_ExaUpdateIn --------------------------
(***************************************************************************)
(* Verdicts for C02 / C19: one line per UPDATE the harness fed to the real   *)
(* code: [id, u, obs] where obs is the projection of what ExaBGP reported     *)
(* (JSON event parsed by the harness into numbers, Adj-RIB-In, or the error   *)
(* raised).  TLC evaluates Outcome(u) -- a function of the bytes and the      *)
(* session parameters only -- and names every clause that differs.            *)
(***************************************************************************)
EXTENDS ExaUpdateIn, Json, IOUtils

Tr == ndJsonDeserialize(IOEnv.TRACE_FILE)
SetOf(s) == {s[i] : i \in 1..Len(s)}
Chk(name, ok) == IF ok THEN {} ELSE {name}

JU(j) == [asn4 |-> j.asn4, addpath |-> j.addpath, ibgp |-> j.ibgp, extnh |-> j.extnh, mpr4 |-> j.mpr4, origin |-> j.origin, path |-> j.path, as4 |-> j.as4, med |-> j.med,
          pref |-> j.pref, atomic |-> j.atomic, aggr |-> j.aggr, comm |-> j.comm, orig |-> j.orig, unkT |-> j.unkT, unkNT |-> j.unkNT,
          ext |-> j.ext, partial |-> j.partial, rev |-> j.rev, nlri |-> j.nlri, wd |-> j.wd, mpr |-> j.mpr, mprLL |-> j.mprLL,
          mpu |-> j.mpu, fault |-> <<j.fault[1], j.fault[2]>>]

\* observed sets, brought to the shape of Outcome
ObsAnn(o) == {<<<<x[1], x[2], x[3], x[4]>>, x[5]>> : x \in SetOf(o.announce)}
ObsWd(o)  == {<<x[1], x[2], x[3], x[4]>> : x \in SetOf(o.withdraw)}
ObsRib(o) == {<<<<x[1], x[2], x[3], x[4]>>, x[5]>> : x \in SetOf(o.ribin)}
ObsPath(o) == [i \in 1..Len(o.path) |-> [t |-> o.path[i][1], asns |-> [k \in 1..Len(o.path[i][2]) |-> <<o.path[i][2][k][1], o.path[i][2][k][2]>>]]]
\* AS_SETs are unordered: compare segment by segment, sets as sets
SegEq(a, b) == a.t = b.t /\ (IF a.t = 1 THEN SetOf(a.asns) = SetOf(b.asns) /\ Len(a.asns) = Len(b.asns) ELSE a.asns = b.asns)
\* how a path is cut into consecutive AS_SEQUENCE segments carries no meaning: compare with adjacent sequences joined
RECURSIVE Norm(_)
Norm(p) == IF Len(p) < 2 THEN p
           ELSE IF p[1].t = 2 /\ p[2].t = 2 THEN Norm(<<[t |-> 2, asns |-> p[1].asns \o p[2].asns]>> \o Drop(p, 2))
           ELSE <<p[1]>> \o Norm(Tail(p))
PathEq(p0, q0) == LET p == Norm(p0) q == Norm(q0) IN Len(p) = Len(q) /\ \A i \in 1..Len(p) : SegEq(p[i], q[i])

Viol(u, o) ==
    LET e == Outcome(u) IN
    IF o.error # "" THEN {"C02-well-formed-update-refused"}
    ELSE
         Chk("C02-end-of-rib-not-recognised-for-the-right-family", o.eor = e.eor)
    \cup (IF e.eor # "none" THEN {} ELSE
             Chk("C02-announce-set-or-next-hop-differs", ObsAnn(o) = e.announce)
        \cup Chk("C02-withdraw-set-differs", ObsWd(o) = e.withdraw)
        \* RFC 4271 4.3: a prefix both withdrawn and announced in one UPDATE SHOULD be treated as announced: either is accepted
        \cup Chk("C02-adj-rib-in-differs", ObsRib(o) \subseteq e.announce /\ \A a \in e.announce \ ObsRib(o) : a[1] \in e.withdraw)
        \cup (IF ~e.hasAttrs THEN {} ELSE
                 Chk("C02-origin-differs", o.origin = e.origin)
            \cup Chk("C02-as-path-differs-or-not-merged-per-rfc6793", PathEq(ObsPath(o), e.path))
            \cup Chk("C02-med-differs", o.med = e.med)
            \cup Chk("C02-local-pref-differs", o.pref = e.pref)
            \cup Chk("C02-atomic-aggregate-differs", o.atomic = e.atomic)
            \cup Chk("C02-aggregator-differs", (IF o.aggr = <<>> THEN <<>> ELSE <<<<o.aggr[1][1], o.aggr[1][2]>>, o.aggr[2]>>) = e.aggr)
            \cup Chk("C02-communities-differ", o.comm = e.comm)
            \cup Chk("C02-originator-or-cluster-list-differs", o.originator = e.originator /\ o.cluster = e.cluster)
            \cup Chk("C02-unknown-transitive-attribute-not-relayed-as-is", o.unknown = e.unknown)
            \cup Chk("C02-attribute-invented", o.extra = <<>>)))

VARIABLES l, bad
JInit == l = 1 /\ bad = <<>>
JNext == /\ l <= Len(Tr) /\ l' = l + 1
         /\ LET v == Viol(JU(Tr[l].u), Tr[l].obs) IN bad' = IF v = {} THEN bad ELSE Append(bad, [line |-> l, id |-> Tr[l].id, clauses |-> v])
JSpec == JInit /\ [][JNext]_<<l, bad>>
Report == (l = Len(Tr) + 1) => PrintT(<<"VERIF", "verdict", Len(Tr), ToJsonArray(bad)>>)
=============================================================================
