---------------------------- MODULE Judge_ExaText ----------------------------
(* Verdicts for C18.  A line: [id, u: row, outcome: "accepted" | "refused" | "raised" | "silent", lastresort: the refusal is the report of an unexpected exception,
   enc: [session |-> "ok" | "raised" | "nothing"], wire: [session |-> bytes of the UPDATEs sent]] *)
EXTENDS ExaText, Json, IOUtils
Tr == ndJsonDeserialize(IOEnv.TRACE_FILE)
Chk(name, ok) == IF ok THEN {} ELSE {name}
JU(j) == [field |-> j.field, val |-> j.val, src |-> j.src]
Viol(r, j) ==
    Chk("C18-unhandled-exception-instead-of-a-refusal", j.outcome # "raised")
    \cup Chk("C18-no-answer-at-all", j.outcome # "silent")
    \cup Chk("C18-unhandled-exception-answered-by-the-last-resort-handler", ~j.lastresort)
    \cup Chk("C18-value-the-wire-format-holds-was-refused", (Accept(r) /\ ~Free(r)) => j.outcome # "refused")
    \cup Chk("C18-value-the-wire-format-cannot-hold-was-accepted", (~Accept(r) /\ ~Free(r)) => j.outcome # "accepted")
    \cup (IF j.outcome # "accepted" THEN {}
          ELSE UNION {Chk("C18-accepted-definition-raises-when-encoded", j.enc[s] # "raised")
                      \cup Chk("C18-accepted-definition-produces-no-update", (j.enc[s] = "nothing") => (JU(j.u).field \in Lengths /\ Free(JU(j.u))))
                      \cup Chk("C18-value-not-carried-as-written", Accept(r) /\ ~Free(r) /\ j.enc[s] = "ok" => Contains(j.wire[s], Frag(r, s))) : s \in Sessions})
VARIABLES l, bad
JInit == l = 1 /\ bad = <<>>
JNext == /\ l <= Len(Tr) /\ l' = l + 1
         /\ LET v == Viol(JU(Tr[l].u), Tr[l]) IN bad' = IF v = {} THEN bad ELSE Append(bad, [line |-> l, id |-> Tr[l].id, clauses |-> v])
JSpec == JInit /\ [][JNext]_<<l, bad>>
Report == (l = Len(Tr) + 1) => PrintT(<<"VERIF", "verdict", Len(Tr), ToJsonArray(bad)>>)
=============================================================================
