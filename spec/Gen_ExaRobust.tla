---------------------------- MODULE Gen_ExaRobust ----------------------------
EXTENDS ExaRobust
CONSTANTS Seeds, CorpusSeeds, NCorpus
VARIABLES u, z
GenInit == u \in Rows(Seeds) \cup CorpusRows(CorpusSeeds, NCorpus) /\ z = 0
GenSpec == GenInit /\ [][UNCHANGED <<u, z>>]_<<u, z>>
TableOK == u.shape \in AllShapes \cup {"corpus"}
=============================================================================
