----------------------------- MODULE Gen_ExaRib -----------------------------
(* Script generator: breadth-first exploration of ExaRib that prints, for every distinct                  *)
(* (state, last action) pair reached within MaxLevel steps, one history leading to it.  The harness       *)
(* replays each history on the real OutgoingRIB and appends a drain.                                       *)
EXTENDS ExaRib, Json

CONSTANTS MaxLevel

VARIABLE hist
gvars == <<vars, hist>>

MCFamOf(k)   == IF k \in {"k3", "k5"} THEN "v6u" ELSE "v4u"
MCAttrIdx(k, a) == <<MCFamOf(k), a>>   \* route text carries the next hop inside the attribute index; x differs per family
MCGrouped(f) == f = "v4u"

GInit == Init /\ hist = <<>>
GNext == Next /\ hist' = Append(hist, act')
GSpec == GInit /\ [][GNext]_gvars

GView == <<View, act>>
LevelOK == TLCGet("level") <= MaxLevel
Emit == PrintT(<<"VERIF", "script", ToJson(hist)>>)
=============================================================================
