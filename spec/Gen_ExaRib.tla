----------------------------- MODULE Gen_ExaRib -----------------------------
(* Script generator: breadth-first exploration of ExaRib that prints, for every distinct                  *)
(* (state, last action) pair reached within MaxLevel steps, one history leading to it.  The harness       *)
(* replays each history on the real OutgoingRIB and appends a drain.                                       *)
EXTENDS ExaRib, Json

CONSTANTS MaxLevel

VARIABLE hist
gvars == <<vars, hist>>

MCFamOf(k)   == IF k \in {"k3", "k5"} THEN "v6u" ELSE IF k = "k7" THEN "v4l" ELSE "v4u"     \* k7: a labeled route (the label is payload: it travels with the attributes x / y)
MCAttrIdx(k, a) == <<MCFamOf(k), IF k = "k7" /\ a \in {"x", "y"} THEN "xy" ELSE a>>   \* the attribute index of the route text: x and y of the labeled key differ in the label only
MCGrouped(f) == f = "v4u"

GInit == Init /\ hist = <<>>
GNext == Next /\ hist' = Append(hist, act')
GSpec == GInit /\ [][GNext]_gvars

GView == <<View, act>>
LevelOK == TLCGet("level") <= MaxLevel
Emit == PrintT(<<"VERIF", "script", ToJson(hist)>>)
=============================================================================
