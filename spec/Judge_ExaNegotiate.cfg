SPECIFICATION JSpec
INVARIANT Report
CHECK_DEADLOCK FALSE
