SPECIFICATION Spec
CONSTANTS
  MaxCmds = 2
  MaxSteps = 7
INVARIANT SameOrder
INVARIANT OneTerminalReplyEach
INVARIANT NothingInvented
INVARIANT RibsAreTheFold
CHECK_DEADLOCK FALSE
