---------------------------- MODULE Judge_ExaCodec ----------------------------
EXTENDS ExaCodec, Json, IOUtils
Tr == ndJsonDeserialize(IOEnv.TRACE_FILE)
VARIABLES l, bad
JInit == l = 1 /\ bad = <<>>
JNext == /\ l <= Len(Tr) /\ l' = l + 1
         /\ LET v == Viol(Tr[l]) IN bad' = IF v = {} THEN bad ELSE Append(bad, [line |-> l, id |-> Tr[l].id, clauses |-> v])
JSpec == JInit /\ [][JNext]_<<l, bad>>
Report == (l = Len(Tr) + 1) => PrintT(<<"VERIF", "verdict", Len(Tr), ToJsonArray(bad)>>)
=============================================================================
