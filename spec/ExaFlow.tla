------------------------------- MODULE ExaFlow -------------------------------
(***************************************************************************)
(* C16: FlowSpec rules mean on the wire what they say in text (RFC 8955,     *)
(* RFC 8956 for IPv6).  A rule is a record of small named choices;            *)
(* EncFlow(r) is the byte-exact NLRI the RFC requires (components in          *)
(* ascending type order, operator byte = end-of-list | and | length | lt gt   *)
(* eq, each value in the shortest width, 1-byte length below 240 and 0xFnnn   *)
(* from 240, route distinguisher first for flow-vpn) and Actions(r) the        *)
(* extended communities of RFC 8955 section 7.                                *)
(***************************************************************************)
EXTENDS ExaWire

\* numeric operator lists: each element [and, lt, gt, eq, v]
Op(and, lt, gt, eq, v) == [and |-> and, lt |-> lt, gt |-> gt, eq |-> eq, v |-> v]
NumLists == [
    none |-> <<>>,
    one |-> <<Op(FALSE, FALSE, FALSE, TRUE, 80)>>,
    two |-> <<Op(FALSE, FALSE, FALSE, TRUE, 80), Op(FALSE, FALSE, FALSE, TRUE, 8080)>>,
    range |-> <<Op(FALSE, FALSE, TRUE, TRUE, 1024), Op(TRUE, TRUE, FALSE, TRUE, 8191)>>,          \* >=1024&<=8191
    b255 |-> <<Op(FALSE, FALSE, FALSE, TRUE, 255)>>,
    b256 |-> <<Op(FALSE, FALSE, FALSE, TRUE, 256)>>,
    max16 |-> <<Op(FALSE, TRUE, FALSE, FALSE, 65535)>>,
    three |-> <<Op(FALSE, FALSE, TRUE, FALSE, 10), Op(TRUE, TRUE, FALSE, FALSE, 20), Op(FALSE, FALSE, FALSE, TRUE, 30)>> ]   \* >10&<20 =30
SmallLists == [none |-> <<>>, one |-> <<Op(FALSE, FALSE, FALSE, TRUE, 6)>>, two |-> <<Op(FALSE, FALSE, FALSE, TRUE, 6), Op(FALSE, FALSE, FALSE, TRUE, 17)>>]

Dom == [
    v6 |-> BOOLEAN, rd |-> BOOLEAN,
    \* dst off64/off65: the RFC 8956 3.8 examples, ::1234:5678:9a00:0/104 from bit 64 / 65
    dst |-> {"none", "p24", "host", "def", "off64", "off65"}, src |-> {"none", "p24", "host"},
    proto |-> {"none", "one", "two"},
    port |-> {"none", "one", "two", "range", "b255", "b256", "max16", "three"},
    dport |-> {"none", "one", "range", "b256"},
    sport |-> {"none", "one", "max16"},
    itype |-> {"none", "one"}, icode |-> {"none", "one"},
    flags |-> {"none", "syn", "synack", "notrst"},
    plen |-> {"none", "one", "range", "b256"},
    dscp |-> {"none", "one"},
    frag |-> {"none", "isf", "first"},
    label |-> {"none", "big"},                 \* IPv6 flow label (type 13), a 20-bit value needing four bytes
    pad |-> {"none", "n239", "n240", "n241", "n255", "n256", "n257"},  \* extra destination ports so that the NLRI is exactly that many bytes long
    action |-> {"discard", "rate", "redirect", "mark", "sample", "terminal", "discard-sample", "redirect-mark"} ]    \* the last two: two actions in one rule
Base == [v6 |-> FALSE, rd |-> FALSE, dst |-> "p24", src |-> "none", proto |-> "one", port |-> "none", dport |-> "one", sport |-> "none", itype |-> "none",
         icode |-> "none", flags |-> "none", plen |-> "none", dscp |-> "none", frag |-> "none", label |-> "none", pad |-> "none", action |-> "discard"]
Bases == {Base, [Base EXCEPT !.v6 = TRUE, !.src = "p24"], [Base EXCEPT !.rd = TRUE, !.port = "range", !.flags = "syn"],
          [Base EXCEPT !.dst = "none", !.proto = "none", !.dport = "none", !.src = "host", !.pad = "n240"]}
Fields == DOMAIN Base
WellFormed(r) == (r.label # "none" => r.v6) /\ (r.dst \in {"off64", "off65"} => r.v6) /\ (r.pad # "none" => r.dport = "none" /\ r.sport = "none")
              /\ (r.dst # "none" \/ r.src # "none" \/ r.proto # "none" \/ r.port # "none" \/ r.dport # "none" \/ r.pad # "none")
              /\ (r.v6 => r.frag \in {"none", "isf", "first"})
              \* the text has no address-family keyword: a rule is an IPv6 one because of an IPv6 prefix or an IPv6-only component
              /\ (r.v6 => r.dst # "none" \/ r.src # "none" \/ r.proto # "none" \/ r.dscp # "none" \/ r.label # "none")

\* ---- encoding ------------------------------------------------------------------------------------
ValWidth(v) == IF v < 256 THEN 1 ELSE IF v < 65536 THEN 2 ELSE 4
LenBits(w) == IF w = 1 THEN 0 ELSE IF w = 2 THEN 16 ELSE 32
ValBytes(v) == IF v < 256 THEN <<v>> ELSE IF v < 65536 THEN U16(v) ELSE U32(v)
B(b) == IF b THEN 1 ELSE 0
RECURSIVE EncNum(_, _)
EncNum(ops, i) ==
    IF i > Len(ops) THEN <<>>
    ELSE LET o == ops[i] IN
         <<(IF i = Len(ops) THEN 128 ELSE 0) + 64 * B(o.and) + LenBits(ValWidth(o.v)) + 4 * B(o.lt) + 2 * B(o.gt) + B(o.eq)>> \o ValBytes(o.v) \o EncNum(ops, i + 1)
Num(type, ops) == IF ops = <<>> THEN <<>> ELSE <<type>> \o EncNum(ops, 1)
\* bitmask operators (tcp-flags, fragment): e a len 0 0 not match
Mask(type, lst) == IF lst = <<>> THEN <<>>       \* lst: Seq([and, not, match, v])
    ELSE <<type>> \o Flat([i \in 1..Len(lst) |-> <<(IF i = Len(lst) THEN 128 ELSE 0) + 64 * B(lst[i].and) + 2 * B(lst[i].not) + B(lst[i].match), lst[i].v>>])
M(and, not, match, v) == [and |-> and, not |-> not, match |-> match, v |-> v]
FlagLists == [none |-> <<>>, syn |-> <<M(FALSE, FALSE, FALSE, 2)>>, synack |-> <<M(FALSE, FALSE, TRUE, 18)>>, notrst |-> <<M(FALSE, TRUE, FALSE, 4)>>]
FragLists == [none |-> <<>>, isf |-> <<M(FALSE, FALSE, FALSE, 2)>>, first |-> <<M(FALSE, FALSE, FALSE, 4)>>]

Pfx4 == [p24 |-> <<24, 192, 168, 0>>, host |-> <<32, 10, 0, 0, 1>>, def |-> <<0>>, off64 |-> <<>>, off65 |-> <<>>]
Pfx6 == [p24 |-> <<32, 0, 32, 1, 13, 184>>, host |-> <<128, 0>> \o <<32, 1, 13, 184, 0, 0, 0, 0, 0, 0, 0, 0, 0, 0, 0, 1>>, def |-> <<0, 0>>,
         \* RFC 8956 3.8.2 / 3.8.3: only the bits after the offset travel, left-aligned
         off64 |-> <<104, 64, 18, 52, 86, 120, 154>>, off65 |-> <<104, 65, 36, 104, 172, 241, 52>>]   \* length, offset, pattern
PfxComp(type, name, v6) == IF name = "none" THEN <<>> ELSE <<type>> \o (IF v6 THEN Pfx6[name] ELSE Pfx4[name])

\* padding ports: n destination-port values of 3 bytes each (=1000+i), as one component
PadPorts(n) == [i \in 1..n |-> Op(FALSE, FALSE, FALSE, TRUE, 1000 + i)]
Components(r, npad) ==
       PfxComp(1, r.dst, r.v6) \o PfxComp(2, r.src, r.v6)
    \o Num(3, SmallLists[r.proto])
    \o Num(4, NumLists[r.port])
    \o Num(5, IF npad > 0 THEN PadPorts(npad) ELSE NumLists[r.dport])
    \o Num(6, NumLists[r.sport])
    \o Num(7, IF r.itype = "one" THEN <<Op(FALSE, FALSE, FALSE, TRUE, 8)>> ELSE <<>>)
    \o Num(8, IF r.icode = "one" THEN <<Op(FALSE, FALSE, FALSE, TRUE, 0)>> ELSE <<>>)
    \o Mask(9, FlagLists[r.flags])
    \o Num(10, NumLists[r.plen])
    \o Num(11, IF r.dscp = "one" THEN <<Op(FALSE, FALSE, FALSE, TRUE, 10)>> ELSE <<>>)
    \o Mask(12, FragLists[r.frag])
    \o Num(13, IF r.label = "big" THEN <<Op(FALSE, FALSE, FALSE, TRUE, 100000)>> ELSE <<>>)
RD == <<0, 0, 253, 232, 0, 0, 0, 1>>            \* type 0, 65000:1
\* number of padding ports that makes the NLRI (RD included) exactly `target` bytes, or -1 when no count does
PadCount(r, target) ==
    LET base == Len(Components(r, 0)) + (IF r.rd THEN 8 ELSE 0)
        need == target - base - 1                  \* one type byte, then 3 bytes per port
    IN IF need >= 3 /\ need % 3 = 0 THEN need \div 3 ELSE -1
NPad(r) == CASE r.pad = "n239" -> PadCount(r, 239) [] r.pad = "n240" -> PadCount(r, 240) [] r.pad = "n241" -> PadCount(r, 241)
                [] r.pad = "n255" -> PadCount(r, 255) [] r.pad = "n256" -> PadCount(r, 256) [] r.pad = "n257" -> PadCount(r, 257) [] OTHER -> 0
Body(r) == (IF r.rd THEN RD ELSE <<>>) \o Components(r, NPad(r))
EncLen(n) == IF n < 240 THEN <<n>> ELSE <<240 + n \div 256, n % 256>>
EncFlow(r) == EncLen(Len(Body(r))) \o Body(r)

\* RFC 8955 section 7: extended communities of the actions (8 bytes each)
Action(r) == CASE r.action \in {"discard", "discard-sample"} -> <<128, 6, 0, 0, 0, 0, 0, 0>>  \* traffic-rate 0
               [] r.action = "rate"     -> <<128, 6, 0, 0, 70, 22, 0, 0>>                \* traffic-rate 9600.0 (IEEE 754 0x46160000)
               [] r.action \in {"redirect", "redirect-mark"} -> <<128, 8, 255, 220, 0, 0, 48, 57>>   \* redirect 65500:12345
               [] r.action = "mark"     -> <<128, 9, 0, 0, 0, 0, 0, 12>>                 \* traffic-marking DSCP 12
               [] r.action = "sample"   -> <<128, 7, 0, 0, 0, 0, 0, 2>>                  \* traffic-action, S bit
               [] OTHER                 -> <<128, 7, 0, 0, 0, 0, 0, 1>>                  \* traffic-action, T bit
\* every community the rule must carry (a rule may name several actions)
Actions(r) == CASE r.action = "discard-sample" -> {Action(r), <<128, 7, 0, 0, 0, 0, 0, 2>>}
                [] r.action = "redirect-mark"  -> {Action(r), <<128, 9, 0, 0, 0, 0, 0, 12>>}
                [] OTHER -> {Action(r)}
=============================================================================
