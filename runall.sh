#!/bin/sh
# run every registered check at one tier; print one line per check
tier=${1:-quick}
cd /verif
for id in $(python3 -c "import json;print(' '.join(c['property_id'] for c in json.load(open('MANIFEST.json'))['checks']))"); do
  out=$(./check $id --tier $tier 2>&1); rc=$?
  echo "$id rc=$rc $(echo "$out" | grep "^$id $tier" | tail -1)"
  echo "$out" | grep "^VIOLATION\|MACHINERY" | head -3
done
