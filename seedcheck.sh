#!/bin/sh
# usage: seedcheck.sh <seeded-id>   re-confirms a seeded change on the current /repo HEAD in a scratch worktree:
#   the patch applies, its demonstration passes on the clean tree and fails on the changed tree, the test suite still passes.
# the test suite spawns sbin/exabgp (#!/usr/bin/env python3): make that the interpreter of the repository's venv whatever launched this script
export PATH=/venv/bin:$PATH
ID="$1"; D=/verif/seeded/$ID; WT=/tmp/wt/seed-$ID; L=/tmp/seedlog; mkdir -p $L /tmp/wt
git -C /repo worktree add -q --detach $WT HEAD || exit 2
cd $WT
cp $D/demo.py $WT/seed_demo.py
PYTHONPATH=$WT/src exabgp_log_enable=false timeout 600 /venv/bin/python seed_demo.py > $L/$ID.clean.txt 2>&1; CLEAN=$?
if git apply $D/patch.diff 2>$L/$ID.apply.txt; then APPLY=ok; else APPLY=FAIL; fi
PYTHONPATH=$WT/src exabgp_log_enable=false timeout 600 /venv/bin/python seed_demo.py > $L/$ID.mut.txt 2>&1; MUT=$?
# the whole suite, in two parts: tests/unit/test_environment_naming.py spawns processes with short timeouts and fails on a loaded
# machine, so it runs on its own after the (parallel) rest
PYTHONPATH=$WT/src timeout 900 /venv/bin/python -m pytest -q -p no:cacheprovider --timeout=900 -n 8 --deselect tests/unit/test_environment_naming.py 2>&1 | tail -12 > $L/$ID.tests.txt
PYTHONPATH=$WT/src timeout 300 /venv/bin/python -m pytest -q -p no:cacheprovider --timeout=300 tests/unit/test_environment_naming.py 2>&1 | tail -60 > $L/$ID.tests-env.txt
ENVT=$(tail -1 $L/$ID.tests-env.txt)
TESTS=$(tail -1 $L/$ID.tests.txt)
FAILED=$(grep -c "^FAILED" $L/$ID.tests.txt)
cd /; git -C /repo worktree remove --force $WT
echo "RESULT $ID apply=$APPLY demo_clean_rc=$CLEAN demo_mut_rc=$MUT failed_lines=$FAILED tests='$TESTS + $ENVT'"
