#!/bin/sh
# usage: seedcheck.sh <seeded-id>   re-confirms a seeded change on the current /repo HEAD in a scratch worktree:
#   the patch applies, its demonstration passes on the clean tree and fails on the changed tree, the test suite still passes.
ID="$1"; D=/verif/seeded/$ID; WT=/tmp/wt/seed-$ID; L=/tmp/seedlog; mkdir -p $L /tmp/wt
git -C /repo worktree add -q --detach $WT HEAD || exit 2
cd $WT
cp $D/demo.py $WT/seed_demo.py
PYTHONPATH=$WT/src exabgp_log_enable=false timeout 600 /venv/bin/python seed_demo.py > $L/$ID.clean.txt 2>&1; CLEAN=$?
if git apply $D/patch.diff 2>$L/$ID.apply.txt; then APPLY=ok; else APPLY=FAIL; fi
PYTHONPATH=$WT/src exabgp_log_enable=false timeout 600 /venv/bin/python seed_demo.py > $L/$ID.mut.txt 2>&1; MUT=$?
PYTHONPATH=$WT/src timeout 900 /venv/bin/python -m pytest -q -p no:cacheprovider --timeout=900 -n 4 2>&1 | tail -4 > $L/$ID.tests.txt
TESTS=$(tail -1 $L/$ID.tests.txt)
FAILED=$(grep -c "^FAILED" $L/$ID.tests.txt)
cd /; git -C /repo worktree remove --force $WT
echo "RESULT $ID apply=$APPLY demo_clean_rc=$CLEAN demo_mut_rc=$MUT failed_lines=$FAILED tests='$TESTS'"
