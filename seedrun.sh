#!/bin/sh
# usage: seedrun.sh <dir with patch.diff> <check id> [tier]   -- applies the patch in a scratch worktree of /repo HEAD and runs
# the check against that worktree (VERIF_REPO); /repo itself is never touched.  Evidence written by such a run is not to be committed.
D="$1"; C="$2"; T="${3:-quick}"; N=$(basename "$D"); WT=/tmp/wt/m-$N-$C
mkdir -p /tmp/wt
git -C /repo worktree add -q --detach $WT HEAD || exit 2
if ! git -C $WT apply "$D/patch.diff"; then echo "PATCH DOES NOT APPLY"; git -C /repo worktree remove --force $WT; exit 3; fi
cd /verif && VERIF_REPO=$WT ./check $C --tier $T > "$D/check-$C.log" 2>&1; rc=$?
git -C /repo worktree remove --force $WT
echo "seedrun $N $C rc=$rc $(grep -c '^VIOLATION' "$D/check-$C.log") violations; $(grep '^violation classes' "$D/check-$C.log" | cut -c1-300)"
exit $rc
