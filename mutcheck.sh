#!/bin/sh
# usage: mutcheck.sh <patch> <check args...>   -- applies a patch to /repo, runs ./check, reverts
P="$1"; shift
git -C /repo apply "$P" || { echo "PATCH DOES NOT APPLY"; exit 3; }
cd /verif && ./check "$@"; rc=$?
git -C /repo checkout -- . 
echo "mutcheck rc=$rc"
exit $rc
